#!/bin/bash
# usage: tools/save_benign.sh <scratch-dir> <Cxx> "<summary>"  -- keep a hand-made behaviour-preserving variant
# (typically a seed with its slip repaired) as a benign case: diff of the scratch copy against /repo HEAD
scr="$1"; id="$2"; sum="$3"
k=1; while [ -d /verif/benign/$id-$k ]; do k=$((k+1)); done
dst=/verif/benign/$id-$k; mkdir -p $dst
ref=$(mktemp -d /tmp/scratch/ref_XXXX); git -C /repo archive HEAD | tar x -C $ref
(cd /tmp/scratch && diff -ruN -x '*.orig' -x '*.rej' "$(basename $ref)" "$(realpath --relative-to=/tmp/scratch $scr)" | sed -E "s#^(---|\+\+\+) $(basename $ref)/#\1 a/#; s#^(---|\+\+\+) $(realpath --relative-to=/tmp/scratch $scr)/#\1 b/#; /^diff -ruN/d" > $dst/patch.diff)
rm -rf $ref
python3 - "$dst" "$id" "$sum" <<'PY'
import json,sys
d,pid,summ=sys.argv[1:4]
json.dump({"property":pid,"summary":summ,"kind":"seed with its slip repaired by hand (the refactor without the break)","origin":"written by the checker's author while strengthening rules; builds and passes the baseline suite"},open(d+'/meta.json','w'),indent=1)
PY
echo $dst; (cd $scr && export GOFLAGS=-mod=mod GOPROXY=off && go build ./... && go test -vet=off -count=1 ./... 2>&1 | grep -v "^ok\|no test files" | head -5)
