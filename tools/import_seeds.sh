#!/bin/bash
# usage: tools/import_seeds.sh <worktree> <Cxx>   -- confirm every OUT/<n> of a seeding worktree and copy the
# confirmed ones into /verif/seeded/<Cxx>-<next>/ (patch.diff, demo files, meta.json with provenance).
WT="$1"; ID="$2"
for d in "$WT"/OUT/*/; do
  n=$(basename "$d")
  [ -f "$d/patch.diff" ] || continue
  res=$(/verif/tools/confirm_seed.sh "$WT" "$n" 2>&1 | grep -v conda)
  if echo "$res" | grep -q "RESULT confirmed"; then
    k=1; while [ -d /verif/seeded/$ID-$k ] || [ -d /verif/seeded_retired/$ID-$k ]; do k=$((k+1)); done
    dst=/verif/seeded/$ID-$k; mkdir -p "$dst"
    cp "$d"/patch.diff "$dst"/; cp "$d"/*.go "$dst"/ 2>/dev/null
    HEADREV=$(git -C "$WT" rev-parse --short HEAD)
    python3 - "$d/meta.json" "$dst/meta.json" "$ID" "$HEADREV" <<'PY'
import json,sys
src,dst,pid,rev=sys.argv[1:5]
m=json.load(open(src))
m['breaks_property']=pid
m['origin']="written by an independent sub-agent (round 10) that was given only the property text and a scratch worktree of /repo at "+rev
m['confirmed']="re-run by tools/confirm_seed.sh in the agent's worktree after it finished: patch applies and builds, the 53 baseline tests pass with it, the demonstration fails with the patch and passes without it"
json.dump(m,open(dst,'w'),indent=1)
PY
    echo "$ID OUT/$n -> $(basename $dst): confirmed"
  else
    echo "$ID OUT/$n: NOT CONFIRMED"; echo "$res" | tail -8
  fi
done
