#!/bin/bash
# usage: tools/seedrun.sh <seed-dir-name|all> [property ...]
# Applies a seeded change to a scratch worktree of /repo (never to /repo itself), runs the given
# property checks (default: the property the seed breaks) against it and prints which rules fired.
SCR=/tmp/wt/scratch
if [ ! -d "$SCR" ]; then git -C /repo worktree add -q --detach "$SCR" HEAD || exit 2; fi
git -C "$SCR" checkout -q --detach "$(git -C /repo rev-parse HEAD)" 2>/dev/null
run_one() {
  local seed="$1"; shift
  local dir="/verif/seeded/$seed"
  local props="$*"
  [ -z "$props" ] && props=$(python3 -c "import json;print(json.load(open('$dir/meta.json'))['breaks_property'])")
  git -C "$SCR" checkout -q -- . ; git -C "$SCR" clean -qfd
  if ! git -C "$SCR" apply "$dir/patch.diff" 2>/dev/null; then echo "$seed: PATCH-DOES-NOT-APPLY"; return; fi
  for p in $props; do
    out=$(/verif/bin/nutcheck -repo "$SCR" -property "$p" -no-evidence 2>&1)
    n=$(echo "$out" | grep -c '^VIOLATION')
    keys=$(echo "$out" | grep 'key=' | sed 's/.*key=//' | cut -c1-110 | head -3 | tr '\n' ';')
    if [ "$n" -gt 0 ]; then echo "$seed [$p]: CAUGHT ($n) $keys"; else echo "$seed [$p]: missed"; fi
  done
  git -C "$SCR" checkout -q -- . ; git -C "$SCR" clean -qfd
}
if [ "$1" = "all" ]; then shift; for d in $(ls /verif/seeded); do run_one "$d" "$@"; done; else run_one "$@"; fi
