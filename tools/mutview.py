#!/usr/bin/env python3
"""usage: mutview.py <results.jsonl|progress-glob> [file-substr] [func-substr] [status]  -- triage view of the mutation sweep"""
import sys, json, glob, re
files = glob.glob(sys.argv[1]) if '*' in sys.argv[1] else [sys.argv[1]]
fs = sys.argv[2] if len(sys.argv) > 2 else ''
fn = sys.argv[3] if len(sys.argv) > 3 else ''
st = sys.argv[4] if len(sys.argv) > 4 else 'silent,survivor'
rs = []
for f in files:
    rs += [json.loads(l) for l in open(f)]
LOG = re.compile(r'log(Debug|Info|Error)f|slog\.|fmt\.Print|log\.Print')
for r in sorted(rs, key=lambda r: (r['file'], r['line'], r['start'])):
    if r['status'] not in st.split(','): continue
    if fs not in r['file'] or fn not in r['func']: continue
    if LOG.search(r['orig']) : continue
    print('%s:%d %s [%s] | %s => %s' % (r['file'], r['line'], r['func'], r['op'], r['orig'][:80].replace('\n', ' '), r['repl'][:60].replace('\n', ' ')))
