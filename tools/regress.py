#!/usr/bin/env python3
"""Development aid: runs every kept seed (must be reported by a rule of the property it breaks) and every kept
benign edit (must stay silent on all properties) against the current bin/nutcheck, in parallel, on scratch
copies of /repo's working tree.  usage: regress.py [seeds|benign|all] [name-filter]"""
import json, os, shutil, subprocess, sys, tempfile, multiprocessing as mp
V = '/verif'
ENV = dict(os.environ, GOFLAGS='-mod=mod', GOPROXY='off')
for k in ('GOWORK', 'GOTOOLCHAIN', 'GOSUMDB'):
    ENV.pop(k, None)
def run(job):
    kind, name = job
    d = os.path.join(V, 'seeded' if kind == 'seed' else 'benign', name)
    scr = tempfile.mkdtemp(prefix='rg_', dir='/tmp/scratch')
    try:
        dst = os.path.join(scr, 'r')
        shutil.copytree('/repo', dst, ignore=shutil.ignore_patterns('.git'))
        a = subprocess.run(['git', 'apply', '--unsafe-paths', '--directory=' + dst, os.path.join(d, 'patch.diff')], capture_output=True, text=True, cwd='/')
        if a.returncode != 0:
            a = subprocess.run(['patch', '-p1', '-s', '-d', dst, '-i', os.path.join(d, 'patch.diff')], capture_output=True, text=True)
            if a.returncode != 0:
                return (kind, name, 'noapply', [])
        if kind == 'seed':
            prop = json.load(open(os.path.join(d, 'meta.json')))['breaks_property']
        else:
            prop = 'all'
        c = subprocess.run([V + '/bin/nutcheck', '-repo', dst, '-property', prop, '-no-evidence'], capture_output=True, text=True, env=ENV)
        out = c.stdout + c.stderr
        keys = [l.split('key=', 1)[1].strip() for l in out.splitlines() if l.strip().startswith('key=')]
        nviol = sum(1 for l in out.splitlines() if l.startswith('VIOLATION'))
        return (kind, name, 'alarm' if nviol or c.returncode else 'silent', keys)
    finally:
        shutil.rmtree(scr, ignore_errors=True)
if __name__ == '__main__':
    what = sys.argv[1] if len(sys.argv) > 1 else 'all'
    flt = sys.argv[2] if len(sys.argv) > 2 else ''
    os.makedirs('/tmp/scratch', exist_ok=True)
    # variants live in scratch directories and the Go build cache keys packages by directory: run them on a private,
    # hard-linked copy of the cache that is removed afterwards (otherwise every sweep leaves several GB behind)
    src = subprocess.run(['go', 'env', 'GOCACHE'], capture_output=True, text=True).stdout.strip()
    tmpc = tempfile.mkdtemp(prefix='rg_gocache_', dir='/tmp/scratch')
    os.rmdir(tmpc)
    if not src or subprocess.run(['cp', '-al', src, tmpc]).returncode != 0:
        os.makedirs(tmpc, exist_ok=True)
    ENV['GOCACHE'] = tmpc
    import atexit
    atexit.register(lambda: shutil.rmtree(tmpc, ignore_errors=True))
    jobs = []
    if what in ('seeds', 'all'):
        jobs += [('seed', n) for n in sorted(os.listdir(V + '/seeded')) if flt in n]
    if what in ('benign', 'all'):
        jobs += [('benign', n) for n in sorted(os.listdir(V + '/benign')) if flt in n]
    with mp.Pool(14) as p:
        res = p.map(run, jobs)
    missed = [r for r in res if r[0] == 'seed' and r[2] != 'alarm']
    alarms = [r for r in res if r[0] == 'benign' and r[2] != 'silent']
    ns = sum(1 for r in res if r[0] == 'seed'); nb = sum(1 for r in res if r[0] == 'benign')
    print('seeds: %d/%d reported; benign: %d/%d silent' % (ns - len(missed), ns, nb - len(alarms), nb))
    for r in missed:
        print('MISSED', r[1], r[2])
    for r in alarms:
        print('ALARM ', r[1], r[2], len(r[3]))
        for k in r[3][:6]:
            print('        ', k[:170])
