#!/bin/bash
# usage: confirm_seed.sh <worktree> <n>   -- re-verify a seeded change produced in <worktree>/OUT/<n>
# (a) patch applies, builds, baseline suite passes; (b) demo fails with patch; (c) demo passes without.
WT="$1"; N="$2"; D="$WT/OUT/$N"
export GOFLAGS=-mod=mod GOPROXY=off
cd "$WT" || exit 2
git checkout -q -- . ; 
clean_untracked() { git status --porcelain | awk '$1=="??"{print $2}' | grep -v '^OUT/$' | grep -v '^TASK.md$' | xargs -r rm -rf; }
clean_untracked
# keep OUT out of ./... : move aside
mv OUT /tmp/OUT.$$.aside
cp -r /tmp/OUT.$$.aside/$N /tmp/seed.$$.cur
restore() { cd "$WT"; git checkout -q -- .; clean_untracked; rm -rf OUT; mv /tmp/OUT.$$.aside OUT; rm -rf /tmp/seed.$$.cur; }
trap restore EXIT
DEMO=$(python3 -c "import json;print(json.load(open('/tmp/seed.$$.cur/meta.json'))['demo_cmd'])")
DEMO=${DEMO//OUT\/$N\//\/tmp\/seed.$$.cur\/}
DEMO=${DEMO//.\/OUT\/$N\//\/tmp\/seed.$$.cur\/}
if ! echo "$DEMO" | grep -q "cp "; then
  # demo_cmd has no copy step: place every *_test.go of the seed into the package directory named by its package clause
  PRE=""
  for f in /tmp/seed.$$.cur/*_test.go; do
    pk=$(grep -m1 '^package ' "$f" | awk '{print $2}'); pk=${pk%_test}
    case "$pk" in
      mint|wallet|crypto|cashu) dir=$pk;;
      nut*) dir=cashu/nuts/$pk;;
      sqlite) dir=mint/storage/sqlite;;
      lightning) dir=mint/lightning;;
      client) dir=wallet/client;;
      storage) if grep -q 'wallet' "$f"; then dir=wallet/storage; else dir=mint/storage; fi;;
      *) dir=$pk;;
    esac
    PRE="$PRE cp $f $dir/zz_seed_$(basename $f) &&"
  done
  DEMO="$PRE $DEMO"
fi
echo "demo_cmd: $DEMO"
git apply /tmp/seed.$$.cur/patch.diff || { echo "RESULT apply-failed"; exit 1; }
go build ./... || { echo "RESULT build-failed"; exit 1; }
if go test -vet=off -count=1 ./... >/tmp/seed.$$.base 2>&1; then echo "baseline-with-patch: pass"; else echo "baseline-with-patch: FAIL"; tail -20 /tmp/seed.$$.base; echo "RESULT baseline-fails"; rm -f /tmp/seed.$$.base; exit 1; fi
rm -f /tmp/seed.$$.base
# a demo_cmd may end with a clean-up step that masks the exit code: a FAIL line of go test counts as failure too
if bash -c "$DEMO" >/tmp/seed.$$.d1 2>&1 && ! grep -q '^--- FAIL\|^FAIL' /tmp/seed.$$.d1; then echo "demo-with-patch: pass (BAD)"; R1=bad; else echo "demo-with-patch: fail (good)"; R1=ok; fi
tail -5 /tmp/seed.$$.d1 | cut -c1-300; rm -f /tmp/seed.$$.d1
git checkout -q -- .
git apply -R --include='*' /tmp/seed.$$.cur/patch.diff 2>/dev/null  # removes files the patch added (checkout does not)
git status --porcelain | awk '$1=="??"{print $2}' | grep -v '^OUT' | grep -v '^TASK.md$\|^PROPERTY.json$' | grep -v '_test.go$' | xargs -r rm -rf
if bash -c "$DEMO" >/tmp/seed.$$.d2 2>&1 && ! grep -q '^--- FAIL\|^FAIL' /tmp/seed.$$.d2; then echo "demo-without-patch: pass (good)"; R2=ok; else echo "demo-without-patch: FAIL (BAD)"; tail -20 /tmp/seed.$$.d2 | cut -c1-300; R2=bad; fi
rm -f /tmp/seed.$$.d2
if [ $R1 = ok ] && [ $R2 = ok ]; then echo "RESULT confirmed"; else echo "RESULT not-confirmed"; exit 1; fi
