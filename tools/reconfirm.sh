#!/bin/bash
# usage: tools/reconfirm.sh <seed|all>  -- re-verify kept seeds against /repo HEAD in the scratch worktree:
# patch applies and builds, baseline suite passes with it, demo fails with it and passes without it.
SCR=${SCR:-/tmp/wt/scratch}
export GOFLAGS=-mod=mod GOPROXY=off
if [ ! -d "$SCR" ]; then git -C /repo worktree add -q --detach "$SCR" HEAD || exit 2; fi
git -C "$SCR" checkout -q --detach "$(git -C /repo rev-parse HEAD)" 2>/dev/null
one() {
  local seed="$1"; local dir="/verif/seeded/$seed"
  cd "$SCR"; git checkout -q -- .; git clean -qfd
  local demo; demo=$(python3 -c "import json;print(json.load(open('$dir/meta.json'))['demo_cmd'])")
  # place the demo files
  local placed=()
  for f in "$dir"/*_test.go "$dir"/*.go; do
    [ -f "$f" ] || continue
    pk=$(grep -m1 '^package ' "$f" | awk '{print $2}'); pk=${pk%_test}
    case "$pk" in
      mint|wallet|crypto|cashu) d=$pk;;
      nut*) d=cashu/nuts/$pk;;
      sqlite) d=mint/storage/sqlite;;
      lightning) d=mint/lightning;;
      client) d=wallet/client;;
      storage) if grep -q 'wallet' "$f"; then d=wallet/storage; else d=mint/storage; fi;;
      *) d=$pk;;
    esac
    bn=$(basename "$f"); case "$bn" in *_test.go) ;; *) continue;; esac
    cp "$f" "$d/zz_seed_$bn"; placed+=("$d/zz_seed_$bn")
  done
  # the test command is what follows the last '&&' that starts a go test
  local cmd; cmd=$(echo "$demo" | grep -o 'go test.*$' | head -1 | sed 's/ *;.*$//; s/ *&&.*$//')
  [ -z "$cmd" ] && { echo "$seed: NO-DEMO-CMD"; return; }
  local without; if eval "$cmd" >/tmp/rc.$$.$RANDOM.out 2>&1; then without=pass; else without=FAIL; fi
  if ! git apply "$dir/patch.diff" 2>/dev/null; then echo "$seed: PATCH-DOES-NOT-APPLY"; rm -f "${placed[@]}"; return; fi
  local build=ok; go build ./... >/dev/null 2>&1 || build=FAIL
  local with; if eval "$cmd" >/tmp/rc.$$.$RANDOM.out 2>&1; then with=pass; else with=FAIL; fi
  rm -f "${placed[@]}"
  local base; if go test -vet=off -count=1 ./... >/tmp/rc.$$.$RANDOM.out 2>&1; then base=pass; else base=FAIL; fi
  git checkout -q -- .; git clean -qfd; rm -f /tmp/rc.$$.$RANDOM.out
  if [ "$build" = ok ] && [ "$base" = pass ] && [ "$with" = FAIL ] && [ "$without" = pass ]; then echo "$seed: confirmed"; else echo "$seed: NOT-CONFIRMED build=$build baseline=$base demo-with=$with demo-without=$without"; fi
}
if [ "$1" = all ]; then for d in $(ls /verif/seeded); do one "$d"; done; else one "$1"; fi
