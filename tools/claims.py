# -*- python -*-  table read by gen_manifest.py
TRUST = ("Trusted base: Go type checker and go/ssa (x/tools v0.29.0); the semantics table of external functions "
         "(error-returning parsers never panic); SQLite's enforcement of PRIMARY KEY/UNIQUE and transaction atomicity; "
         "crypto primitives pinned by the repository's test vectors. Fail-closed: unresolved anchors, unrecognised guard "
         "shapes, type errors and checker panics fail the check.")
CLAIMED = {
 "C01": ("edge-cut must-pass-through over SSA with provenance + SQL/schema reader + check-then-act pair table",
         "Decides on every CFG path of the swap and melt operations that signing / paying / settling is preceded by the spent-table, "
         "pending-table and duplicate checks over Ys derived from the very inputs, that storage read errors are not swallowed, that "
         "swap succeeds only after marking spent, melt pays only after locking; that the schema keys and plain transactional INSERTs "
         "make a second insert fail; that nothing erases the spent table; and which concurrent operation pairs are protected by a key "
         "collision or lock. Right level: these are the code-shape conditions the behavioural property rests on; schedules and "
         "histories themselves are not explored.",
         TRUST, "DESIGN.md §3 C01"),
}
NOT_YET = {}
CLAIMED["C02"] = ("edge-cut must-pass-through + syntactic linear-form comparison of balance guards + provenance wiring",
  "Decides on every path the per-operation inequalities behind 'no inflation': swap signs only behind OUT <= IN - FEES with the "
  "overflow-checked output sum of the very outputs signed; mint only behind OUT <= stored quote amount; melt pays/settles only behind "
  "IN >= amount + fee reserve + input fees; the fee formula; the signer's key/amount/id wiring; the fee-limit argument of every pay call "
  "and its forwarding in each backend; the stored amount/fee reserve of a melt quote. Right level: these guards and wirings are visible in "
  "the code shape for all inputs; the ledger identity over histories follows from them only by a pencil argument and is not claimed.",
  TRUST, "DESIGN.md §3 C02")
CLAIMED["C03"] = ("edge-cut must-pass-through with closure/cell resolution + writer census + compare-and-swap/lock pair table",
  "Decides on every path that the mint op signs only behind stored state PAID and a successful PENDING write, that PAID is written by the "
  "quote-state op only behind UNPAID + successful invoice lookup + Settled, the NUT-20 disjunctive guard over exactly the signed outputs, "
  "that success after signing passes ISSUED and the signature save, that the save is the last fallible and an atomic step, a census of all "
  "writers of the state against allowed transitions, and whether the state check-then-act pairs are protected. Interleavings are not "
  "explored; unprotected pairs are reported (known findings D8/D14).",
  TRUST, "DESIGN.md §3 C03")
CLAIMED["C04"] = ("whole-range-loop (forall) edge-cut with interprocedural nil-return summaries + provenance wiring",
  "Decides for every element of the input list, on every path to signing/paying/settling, that the iteration passed the 512-byte cap, "
  "the keyset hit in the map of all keysets, the key hit for the claimed amount, hex/point parsing of C and crypto.Verify==true on exactly "
  "(that secret, that keyset's key for that amount, that C). Right level: rejection of forged/mutated proofs for all inputs rests exactly on "
  "these per-element guards; the algebra inside crypto.Verify and completeness are not claimed.",
  TRUST, "DESIGN.md §3 C04")
CLAIMED["C05"] = ("edge-cut must-pass-through over the melt outcome decision table + backend zero-value sibling check",
  "Decides on every path of the melt op, the melt-quote poll and the proof-state check that inputs are marked spent / the quote set PAID only "
  "behind a Succeeded answer (or internal settlement), released / set UNPAID only behind a definitive failure after a Failed pay, with "
  "completeness on both edges, the constants and the preimage written, guarded reads of the status field, the zero-value-means-Succeeded "
  "hazard in every backend, the poll's scope and the resolve-before-answer order. Any extra way into a release or settle is a violation. "
  "Right level: the reaction table is a finite code-shape fact for all answer scripts; backend truthfulness and timing are not claimed.",
  TRUST, "DESIGN.md §3 C05")
CLAIMED["C06"] = ("panic-site obligations over the handler-reachable call graph discharged by edge-cut facts + validation-before-mutation cut + handler response discipline",
  "Decides that every index/slice/assert/division/Repeat/make/nil-dereference site reachable from a route handler cannot fire, by dominating "
  "length/nil/range facts, producer postconditions, caller-established facts or a small printed trust table; that in swap/melt/mint no "
  "request rejection is reachable after a persistent write except behind the PENDING marker whose every failure path reverts; that the "
  "state UPDATEs are unconditional; and that handlers call the operation only after a clean decode and write exactly one response. Right "
  "level: 'for every request content' is a for-all over inputs that these path facts settle; dependency internals and scheduling are not claimed.",
  TRUST, "DESIGN.md §3 C06")
CLAIMED["C14"] = ("panic-site obligations over the token functions + provenance-based field-coverage tables",
  "Decides that no index/slice/nil site in the token decoders, constructors and every Token method can fire for any string or decoded token, "
  "and that the V3/V4 builders and accessors copy every field of every proof of every group (DLEQ exactly under the includeDLEQ parameter and "
  "presence), amounts sum everything, mint/unit use one field, prefixes agree between Serialize and the decoders, keys are distinct. Right "
  "level: totality of the decoder is a for-all over strings settled by length facts; field coverage is a finite table; value equality of the "
  "CBOR/JSON round trip is library behaviour and is not claimed.",
  TRUST, "DESIGN.md §3 C14")
CLAIMED["C12"] = ("edge-cut with disjunctive accept sets over the P2PK verifier, counting-discipline and existential-scan path rules, forall-loop summaries of the output verifier",
  "Decides on every path that the P2PK verifier accepts only through its spending alternatives with correct expiry direction, thresholds, key "
  "lists and hashes; that HasValidSignatures counts each key once; that the SIG_ALL scan is order-independent; that swap/melt honour SIG_ALL; "
  "that the output verifier demands equal conditions over all inputs and enough signatures on every output; that signing helpers and verifiers "
  "agree on the message; that every locked input is dispatched to its verifier. Right level: these are all-path code-shape facts; the full "
  "configuration x witness truth table is not claimed.",
  TRUST, "DESIGN.md §3 C12")
CLAIMED["C13"] = ("edge-cut with disjunctive accept sets over the HTLC verifier + forall-loop summaries + helper/verifier message agreement",
  "Decides on every path that the HTLC verifier accepts only through {expiry alternatives with refund threshold exactly 1, preimage facts with "
  "optional signature threshold}, that every SIG_ALL output of an HTLC passes the preimage and signature facts, that the nut11/nut14 helpers "
  "hash what the mint verifies and the can-sign scan is existential, plus the rules shared with C12. The truth table itself is not claimed.",
  TRUST, "DESIGN.md §3 C13")
CLAIMED["C08"] = ("type screening of marshalled request types + provenance taint analysis with sanitiser summaries and caller chaining",
  "Decides that no request type sent by the wallet's network layer has a position for a private key, an output secret or a blinding factor "
  "other than Proof.DLEQ of input proofs, and that at every swap/melt send the Inputs value is DLEQ-free on all paths (sanitiser summary over a "
  "whole-range loop on all returns, literal lists, or clean at every caller). Right level: 'every byte of every request body on every wallet "
  "path' reduces to the static type of what is marshalled plus the all-path provenance of the one field that can carry r; side channels are "
  "not claimed.",
  TRUST, "DESIGN.md §3 C08")
CLAIMED["C09"] = ("effect/reachability query over the module call graph + provenance wiring of keyset generation, persistence and rotation ordering (edge-cut)",
  "Decides that keyset derivation reaches no nondeterministic leaf, that start-up regenerates every stored keyset from its own stored index/fee/"
  "active flag under the master key of the saved seed, that rotation uses index+1, persists the new keyset's own fields and switches the "
  "active pointer only after storage recorded the deactivation, that only start-up/rotation assign the pointer and nothing deletes keysets, "
  "that the signer serves the active keyset only, per message, and inputs are validated against all keysets with their own fee, and the "
  "60-key 2^i structure. Right level: 'pure function of seed and indices' and 'exactly one active' are wiring facts for all configurations; "
  "numeric agreement with NUT-02 and concurrent rotation are not claimed.",
  TRUST, "DESIGN.md §3 C09")
CLAIMED["C15"] = ("edge-cut completeness rules + provenance structure of the state check and restore + SQL/schema/Go agreement tables",
  "Decides that signatures are returned only after they were saved for the outputs' own B_, the per-Y structure of the state check (priority, "
  "hits of that Y, witness of the matching row, resolve-before-answer), the per-message structure of restore (skip exactly on no-rows, other "
  "errors fail, lock-step append of unmodified stored signatures, error wrapping visible to errors.Is) and the positional agreement of every "
  "SQL statement with its Go arguments and Scan destinations against the folded schema. Right level: 'tells the truth' needs these structural "
  "facts for every query; equality with a reference model over histories is not claimed.",
  TRUST, "DESIGN.md §3 C15")
CLAIMED["C10"] = ("provenance wiring checks around the crypto primitives + forall-loop cut + SQL agreement + monotone census",
  "The algebraic identities and tamper-evidence quantify over group elements and are not decidable statically (pinned by vectors); this check "
  "decides the wiring no test executes: signer Sign/GenerateDLEQ argument identity and emitted fields, storage and restore of (c_, e, s), the "
  "wallet's per-index DLEQ verification / unblinding / stored r, proof-only-on-verified-edge, the re-blinding verifier's arguments, the list "
  "verifier's forall, full-point comparison in crypto.Verify and that hash_to_curve consumes the whole secret.",
  TRUST + " The algebra itself is out of reach of this technique family.", "DESIGN.md §3 C10")
CLAIMED["C11"] = ("monotone census of calls, constant-folded arguments and data flow in the derivation functions",
  "Bit-for-bit agreement with the specifications for every input is numerical and not decidable statically; decided is that each derivation "
  "contains the specified constructs: domain separator + whole message, little-endian 4-byte counter, 0x02 prefix, 2^16 bound; sorted-by-amount "
  "(total order) compressed keys of the whole map, SHA-256, 00 + 14 hex; NUT-13 indices 129372'/0'/(BE uint64 of id mod 2^31-1)'/counter'/{0,1} "
  "with standard derivation; mint path 0'/0'/idx'; wallet P2PK path. Adding code never fires it; replacing a construct does.",
  TRUST + " Numeric equality with an independent implementation is out of reach of this technique family.", "DESIGN.md §3 C11")
CLAIMED["C16"] = ("schema folding + view/SQL agreement + edge-cut limit guards with syntactic linear forms + phi-edge exactness of the disabled flag",
  "Decides that the balance views are exact integer per-keyset sums over the signature and spent tables (final definitions), that the balance "
  "is their difference over all entries, that mint quotes are created only behind the amount and overflow-checked balance limits, melt quotes "
  "only behind the melt limit on the stored amount, that 'disabled' is true exactly on the max-set-and-reached paths and that the info handler "
  "never answers from a cache. Right level: limits at every boundary incl. 2^64 are guard-shape facts; equality of the views with a reference "
  "ledger over histories is not claimed.",
  TRUST, "DESIGN.md §3 C16")
CLAIMED["C20"] = ("JSON addressability walk over static types + error provenance over the call graph + edge-cut masking/cache discipline + constant tables",
  "Decides that every response marshalling reaches the pointer-receiver marshalers of the state-carrying types, that the enum name tables are "
  "inverse, that no foreign error can be forwarded into a response, that internal codes exist only as *cashu.Error and every handler masks "
  "each one its operation can produce, that each validation guard's reject edge returns the repository's error value for that cause with the "
  "pinned numeric code, the NUT-19 cache discipline (key = method+URL+raw body, hit skips the operation, store only successful marshalled "
  "bytes that were written) and the status discipline. Right level: the transport's faithfulness for every outcome is a finite set of "
  "code-shape facts; byte-level bodies are not claimed.",
  TRUST, "DESIGN.md §3 C20")
CLAIMED["C19"] = ("edge-cut pairing of submit and counter-advance events with provenance of keyset/count arguments + loop-structure rules of the restore scan",
  "Decides for every wallet operation that a successful submission of counter-derived outputs is followed on every success path by a matching "
  "successful counter advance (right keyset, right count), never after a failed submission, with no exported operation returning with the "
  "obligation open; and for restore that counters are consecutive per keyset, the stop rule is three consecutive empty batches, and every "
  "batch that returned signatures advances the stored counter by the per-keyset delta before the next batch. Right level: 'no counter reused, "
  "stored counter past every signed one' over all fault-free histories rests on this per-path pairing; wallet crash points and numeric "
  "completeness are not claimed.",
  TRUST, "DESIGN.md §3 C19")
CLAIMED["C17"] = ("edge-cut must-pass-through over the wallet operations' CFGs with provenance of the bucket arguments (custody typestate: spendable / pending / consumed)",
  "Decides on every path the custody discipline that conservation of wallet value rests on: Melt records the selected proofs as pending before "
  "sending them, gives them back only behind the mint's payment-failed error or an UNPAID answer, deletes the pending record only on a final "
  "answer and touches nothing on PENDING; the quote poll gives back exactly the pending proofs of that quote on UNPAID; Send hands out only "
  "proofs recorded as pending; swap-to-send deletes inputs only after a successful swap and saves the change; receive/mint/reclaim succeed "
  "only after saving what they obtained; reclaim removes exactly the UNSPENT-reported proofs from pending after the save; balances are sums "
  "over whole buckets; the active-keyset refresh writes the mint entry back. Right level: 'value is never lost' over histories needs the "
  "arithmetic and the mint's view, which are runtime quantities; the bucket discipline is a necessary condition visible in code shape. "
  "Wallet crash points between two bucket writes are not decided.",
  TRUST, "DESIGN.md §3 C17")
CLAIMED["C18"] = ("edge-cut must-pass-through + provenance of the selection/fee expressions + loop-structure rule of the output matching",
  "Decides that the offline branch returns stored proofs only on the accept edge of sum(selected) == amount + fees(selected) with fees counted "
  "only when requested and exactly the returned proofs removed; that the swap branch matches send outputs to unblinded proofs by equal amount "
  "and removes each matched proof from the candidates before the next match (pairwise distinct results); that the recipient fee budget uses "
  "the synchronised active keyset and the output count; and the wallet fee formulas (one ceil over summed per-proof ppk). Right level: the "
  "numeric exactness of selection under every fee/amount combination is arithmetic over runtime multisets and is not decided; these are "
  "necessary structural conditions of it.",
  TRUST, "DESIGN.md §3 C18")
CLAIMED["C07"] = ("effect-graph extraction from the SSA CFG (outcome-split edge cuts, helper inlining, constant pruning) + abstract interpretation of the graph over a finite store with crash/fault invariants; SQL reader for the model assumptions",
  "Decides, for every mint operation (swap, mint, mint-quote poll, melt with every Lightning outcome, melt-quote poll, keyset rotation), every "
  "position between two storage/Lightning calls and every storage call failing instead: the abstract persistent store {inputs spent, inputs "
  "locked, signatures saved, quote states, payment status, active keysets} that a restart would find satisfies the safety invariants "
  "(signatures saved => inputs spent / quote ISSUED; payment possibly in flight => inputs locked or spent; release / UNPAID only after a "
  "definitive failure; one active keyset) and the recoverability invariants (spent => signatures saved; ISSUED => signatures saved; quote not "
  "left PENDING; locked and unpaid => quote PENDING). The store transitions are read from the SQL of the storage methods and the constant "
  "arguments of the calls; the assumptions 'one storage call = one transaction' and 'state updates are unconditional' are checked on the "
  "storage code. Right level: the set of effect sequences and their prefixes is a finite object visible in the code; SQLite's physical "
  "durability, the restart code path itself and the adversarial follow-up are not decided. Windows present on the reference tree are genuine "
  "and listed as known findings (D15a-h).",
  TRUST, "DESIGN.md §3 C07")

# rules added after the first build (sub-agent rounds 3-5); appended to the statements above
EXTRA = {
 "C01": "Also: swap stores the output signatures only after the spent-table insert (a refused double spend leaves nothing restorable); in the quote poll 'no such payment' is not a definitive failure (the pay call may be in flight).",
 "C02": "Also: internal settlement credits a mint quote only for its own invoice (payment-request equality, D22); an invoice is requested only for an amount bounded by MaxInt64/1000 sats (D23); the checked-arithmetic helpers test every single addition / answer 'ok' only behind the no-wrap fact; PAID is written only over a stored UNPAID.",
 "C03": "Also: the PENDING marker is the first storage call after the state test; the background PAID write is not repeated; poll completeness (UNPAID => invoice looked up); checked sum of the outputs is exact per addition.",
 "C05": "Also: a status returned by a backend with a nil error is an explicit State constant on every path (no table look-up whose miss reads as Succeeded); the lock insert is a plain transactional INSERT; poll completeness.",
 "C06": "Also: duplicate outputs are detected by B_ before the first mutation (D21); dereferences of errors.As targets lie behind that call's true edge; the key columns of the spent / pending / signature tables are bound to the unmodified values.",
 "C09": "Also: the new active keyset row is inserted only after the old one was stored inactive.",
 "C10": "Also: the BDHKE functions never apply a receiver-writing curve operation to memory reached from a parameter.",
 "C12": "Also: DeserializeSecret refuses a secret only when plain json.Unmarshal fails or the decoded array is too short (no pre-filter, no stricter decoder, no content validation that would turn a locked secret into a plain one).",
 "C13": "Also: the hash lock and the preimage are examined only while the lock is not expired; the NUT-10 parser rule of C12.",
 "C14": "Also: error discipline of the decoders with fallback-aware tolerated entries (a failed V4 decode is answered with success only through the V3 decoder's success); decoder size caps are the library defaults.",
 "C15": "Also: proofs of a melt that settles later keep amount, id, secret, C and witness of the pending row; run-time built IN-lists bind every element of the method's whole list parameter.",
 "C16": "Also: the limits field of the mint is the configured Limits, unmodified.",
 "C17": "Also: error discipline of the wallet, its client and storage (C17.R10, frozen table of tolerated sites); melt reconciliation is complete; the client reads whole response bodies; a rotation stores the previous active keyset as inactive; a swap the mint accepted removes its inputs before anything can fail.",
 "C18": "Also: send outputs = split(amount) ++ split(fee budget); every in-memory keyset entry carries that keyset's fee from a real source (path-restricted provenance); the mint's fee operation is the formula the wallet mirrors.",
 "C19": "Also: the counter handed to the derivation was read for the keyset the outputs are derived on; the wallet lock spans counter read to advance; no counter-advancing call lies between the counter read and the submission of the outputs derived from it.",
 "C20": "Also: error discipline of the mint side (C20.R6: the error of every call is tested, classified or handed on before a success return; frozen table of tolerated sites); cached responses live a whole number of seconds; the restore and state-check lists are never nil (JSON arrays, not null).",
}
for _k, _v in EXTRA.items():
    _t = CLAIMED[_k]
    CLAIMED[_k] = (_t[0], _t[1] + " " + _v, _t[2], _t[3])

# rules added in round 6
EXTRA2 = {
 "C01": "Round 6: the spent / pending list readers return every row they scan and bind the whole list; only the melt operation and the melt-quote poll may release locked inputs (call-chain census).",
 "C02": "Round 6: melt decision table cross-registered (a release while the payment can still go out is inflation); active-keyset reads in the signer are one consistent view per message.",
 "C03": "Round 6: storage readers carry every scanned column into the quote; a state-writing background task is started only by the quote-creating operation; no zero-value State variable in the Lightning adapters.",
 "C05": "Round 6: call-chain census of releases; no zero-value State variable; CLN preimage decoded from the answer's own JSON key; melt-quote readers report what is stored.",
 "C06": "Round 6: signatures saved under the outputs' unmodified B_; the request operations write no map of the long-lived mint object (fail-closed census).",
 "C07": "Round 6: call-chain census of releases (a start-up or self-healing release does not know whether the payment went out).",
 "C10": "Round 6: signer wiring cross-registered; restore pairs each signature with the blinding factor of the matched B_ (never the answer's position).",
 "C12": "Round 6: the keys that count on SIG_ALL outputs are the lock keys only, never the refund keys.",
 "C13": "Round 6: as C12.",
 "C15": "Round 6: adapter zero-value rules and the release census cross-registered; list readers return every row.",
 "C16": "Round 6: limits parsed from the environment are not overwritten by a later whole-struct assignment.",
 "C17": "Round 6: every Put / Delete / Get on the spendable and pending buckets names an entry by the same key.",
 "C18": "Round 6: Send selects and removes under the wallet mutex; the keyset listing is not served from the response cache.",
 "C19": "Round 6: the counter accessor returns the stored counter; restore is not served from the response cache.",
}
for _k, _v in EXTRA2.items():
    _t = CLAIMED[_k]
    CLAIMED[_k] = (_t[0], _t[1] + " " + _v, _t[2], _t[3])
EXTRA3 = {
 "C01": "Round 7: the proof-state check reads the spent and pending tables only after it resolved the pending melt quotes (a spent proof is reported SPENT).",
 "C02": "Round 7: the whole-invoice pay call is made only for a non-MPP quote, the partial call only for an MPP quote with the stored AmountMsat, and at creation the MPP flag is stored exactly on the paths that store the partial amount; a JSON fee-limit field is never omitempty; the spent / pending readers bind every input (shared with C01.R10).",
 "C03": "Round 7: the invoice watcher marks PAID only for a received update that says settled; the quote-state answer carries the state that was written; the melt decision table cross-registered for internal settlement.",
 "C04": "Round 7: keyset path and key derivation cross-registered (a different derivation at restart refuses every proof issued before).",
 "C05": "Round 7: the returned melt quote carries the state and preimage that were written (operation, poll, internal settlement, new helpers); what is released / marked spent are the request's inputs resp. every pending row of the quote, field by field; the status look-up of a backend answers Succeeded / Failed with a nil error only behind an equality test on the node's status.",
 "C06": "Round 7: no typed-nil error (every pointer converted to error is never nil); a refused multi-row write leaves no rows (atomic-write rule cross-registered).",
 "C09": "Round 7: every store into the keyset cache uses the key of the same request's look-up and that route's own keyset; every keyset put into the map of all keysets carries every field of one generated keyset under its own id.",
 "C11": "Round 7: reads behind a store through a scalar pointer parameter see the stored value (secret and blinding factor use the same counter).",
 "C13": "Round 7: the per-input agreement of SIG_ALL requests (same keys, same n_sigs, all SIG_ALL) is decided under C13 as well.",
 "C15": "Round 7: melt decision table cross-registered (a paid melt leaves its inputs in the spent table).",
 "C16": "Round 7: signatures are handed out only after they were saved (shared with C06.R5); admin RPC fields named Issued / Redeemed are fed by IssuedEcash / RedeemedEcash only.",
 "C17": "Round 7: on the swap-to-trusted path no storage write takes the received token's proofs.",
 "C18": "Round 7: every storage method that writes one kind of record uses a type with the same JSON members (a counter update keeps the keyset's fee); no append into a proper prefix of a list that stays in use.",
 "C20": "Round 7: a signature row with NULL DLEQ columns is restored without a dleq member; a return that hands out nothing never takes its error from a function that can return nil.",
}
for _k, _v in EXTRA3.items():
    _t = CLAIMED[_k]
    CLAIMED[_k] = (_t[0], _t[1] + " " + _v, _t[2], _t[3])
EXTRA4 = {
 "C02": "Round 8: who signs - every call of the blind-signing primitive lies in the swap or mint operation (a new operation that signs, e.g. melt change, is an outflow no amount rule has examined and fails closed).",
 "C05": "Round 8: no statement of the module deletes or replaces rows of melt_quotes (a PENDING quote that disappears can never adopt the Lightning outcome).",
 "C06": "Round 8: the validation-before-mutation discipline is also demanded of every route that is new on the tree and writes persistent state; a PENDING marker written by an operation body or a new helper is compensated on every failure path (the revert may sit in a new helper).",
 "C08": "Round 8: at every wallet call of crypto.BlindMessage the blinding factor is a fresh key or the NUT-13 derivation and the secret of the same output is not computed from it.",
 "C10": "Round 8: swap and mint hand out, position by position, the result of the signing helper for the request's own output list (not a stored list read back).",
 "C12": "Round 8: the SIG_ALL scan passes over an input only when it is not a NUT-10 secret or not SIG_ALL; the input validator accepts only when EVERY P2PK / HTLC input went through its lock verifier (no skipped iteration).",
 "C13": "Round 8: a witness decoded once per output starts from the zero value for every output (decode destination declared in the loop or reset in the iteration).",
 "C15": "Round 8: state check and restore are not served from the response cache (route census shared with C20.R4).",
 "C17": "Round 8: existing proofs pay the fee of their own keysets (the count-based fee helper is never applied to the length of a proof list); pending proofs are deleted only by the melt, its poll and the state-checked maintenance calls; the network layer sets no timeout or deadline of its own.",
}
for _k, _v in EXTRA4.items():
    _t = CLAIMED[_k]
    CLAIMED[_k] = (_t[0], _t[1] + " " + _v, _t[2], _t[3])
EXTRA5 = {
 "C01": "Round 9: a list reader of the spent / pending table answers without its statement only for an empty request list (a fast path or batched variant is another answer than the one the binding rules examined).",
 "C16": "Round 9: the issued total counts nothing that was not handed out - in the mint operation the signature save is the last fallible step (shared with C03.R7).",
 "C18": "Round 9: every keyset record handed to storage carries the keyset's input fee (D24: Restore stored fee 0).",
 "C19": "Round 9: a stored keyset record, and with it the keyset's counter, is never deleted (no Delete / DeleteBucket under the keysets bucket except where a mint's records move to a new URL).",
}
for _k, _v in EXTRA5.items():
    _t = CLAIMED[_k]
    CLAIMED[_k] = (_t[0], _t[1] + " " + _v, _t[2], _t[3])
EXTRA6 = {
 "C01": "Round 10: no unique index of the schema compares under a collation, over an expression or on part of the rows (the pre-checks compare key strings byte for byte).",
 "C02": "Round 10: swap stores its signatures only after the spent-table insert succeeded (shared with C01.R3).",
 "C06": "Round 10: unique keys compare byte for byte (a collating index refuses, after the inputs were spent, a row the pre-checks let through).",
 "C15": "Round 10: blind signatures are produced only inside the swap and mint operations (who-signs census shared with C02.R16), so restore knows every signature handed out.",
}
for _k, _v in EXTRA6.items():
    _t = CLAIMED[_k]
    CLAIMED[_k] = (_t[0], _t[1] + " " + _v, _t[2], _t[3])
