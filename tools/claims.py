# -*- python -*-  table read by gen_manifest.py
TRUST = ("Trusted base: Go type checker and go/ssa (x/tools v0.29.0); the semantics table of external functions "
         "(error-returning parsers never panic); SQLite's enforcement of PRIMARY KEY/UNIQUE and transaction atomicity; "
         "crypto primitives pinned by the repository's test vectors. Fail-closed: unresolved anchors, unrecognised guard "
         "shapes, type errors and checker panics fail the check.")
CLAIMED = {
 "C01": ("edge-cut must-pass-through over SSA with provenance + SQL/schema reader + check-then-act pair table",
         "Decides on every CFG path of the swap and melt operations that signing / paying / settling is preceded by the spent-table, "
         "pending-table and duplicate checks over Ys derived from the very inputs, that storage read errors are not swallowed, that "
         "swap succeeds only after marking spent, melt pays only after locking; that the schema keys and plain transactional INSERTs "
         "make a second insert fail; that nothing erases the spent table; and which concurrent operation pairs are protected by a key "
         "collision or lock. Right level: these are the code-shape conditions the behavioural property rests on; schedules and "
         "histories themselves are not explored.",
         TRUST, "DESIGN.md §3 C01"),
}
NOT_YET = {}
