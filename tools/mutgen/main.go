// mutgen enumerates small syntactic mutants of the repository's non-test source. It is a development aid for
// measuring which edits the static checks report (tools/mutsweep.py); no registered check uses it.
// Output: one JSON object per line {id, file, start, end, repl, op, func, line, orig}.
package main

import (
	"encoding/json"
	"fmt"
	"go/ast"
	"go/parser"
	"go/token"
	"os"
	"path/filepath"
	"strings"
)

type Mut struct {
	ID    int    `json:"id"`
	File  string `json:"file"`
	Start int    `json:"start"`
	End   int    `json:"end"`
	Repl  string `json:"repl"`
	Op    string `json:"op"`
	Func  string `json:"func"`
	Line  int    `json:"line"`
	Orig  string `json:"orig"`
}

var out []Mut

func main() {
	root := os.Args[1]
	dirs := os.Args[2:]
	for _, d := range dirs {
		filepath.Walk(filepath.Join(root, d), func(p string, info os.FileInfo, err error) error {
			if err != nil || info.IsDir() || !strings.HasSuffix(p, ".go") || strings.HasSuffix(p, "_test.go") {
				return nil
			}
			rel, _ := filepath.Rel(root, p)
			doFile(root, rel)
			return nil
		})
	}
	enc := json.NewEncoder(os.Stdout)
	for i := range out {
		out[i].ID = i
		enc.Encode(out[i])
	}
	fmt.Fprintln(os.Stderr, "mutants:", len(out))
}

func doFile(root, rel string) {
	src, err := os.ReadFile(filepath.Join(root, rel))
	if err != nil {
		return
	}
	fset := token.NewFileSet()
	f, err := parser.ParseFile(fset, rel, src, parser.ParseComments)
	if err != nil {
		return
	}
	if len(f.Comments) > 0 && strings.Contains(f.Comments[0].Text(), "go:build integration") {
		return
	}
	off := func(p token.Pos) int { return fset.Position(p).Offset }
	text := func(n ast.Node) string { return string(src[off(n.Pos()):off(n.End())]) }
	for _, decl := range f.Decls {
		fd, ok := decl.(*ast.FuncDecl)
		if !ok || fd.Body == nil {
			continue
		}
		name := fd.Name.Name
		if fd.Recv != nil && len(fd.Recv.List) > 0 {
			t := fd.Recv.List[0].Type
			if s, ok := t.(*ast.StarExpr); ok {
				t = s.X
			}
			if id, ok := t.(*ast.Ident); ok {
				name = id.Name + "." + name
			}
		}
		add := func(n ast.Node, s, e int, repl, op string) {
			o := string(src[s:e])
			if len(o) > 120 {
				o = o[:120]
			}
			out = append(out, Mut{File: rel, Start: s, End: e, Repl: repl, Op: op, Func: name, Line: fset.Position(n.Pos()).Line, Orig: o})
		}
		var loopDepth int
		var walk func(n ast.Node)
		walkList := func(l []ast.Stmt) {
			for _, s := range l {
				walk(s)
			}
		}
		_ = walkList
		ast.Inspect(fd.Body, func(n ast.Node) bool {
			switch x := n.(type) {
			case *ast.BinaryExpr:
				var alts []string
				switch x.Op {
				case token.LSS:
					alts = []string{"<=", ">"}
				case token.LEQ:
					alts = []string{"<", ">="}
				case token.GTR:
					alts = []string{">=", "<"}
				case token.GEQ:
					alts = []string{">", "<="}
				case token.EQL:
					alts = []string{"!="}
				case token.NEQ:
					alts = []string{"=="}
				case token.LAND:
					alts = []string{"||"}
				case token.LOR:
					alts = []string{"&&"}
				case token.ADD:
					if !isStringy(x) {
						alts = []string{"-"}
					}
				case token.SUB:
					alts = []string{"+"}
				case token.MUL:
					alts = []string{"/"}
				case token.QUO:
					alts = []string{"*"}
				case token.REM:
					alts = []string{"/"}
				}
				s := off(x.OpPos)
				for _, a := range alts {
					add(x, s, s+len(x.Op.String()), a, "binop "+x.Op.String()+"->"+a)
				}
				if x.Op == token.LAND || x.Op == token.LOR {
					// drop one operand
					add(x, off(x.Pos()), off(x.End()), text(x.X), "drop right operand of "+x.Op.String())
					add(x, off(x.Pos()), off(x.End()), text(x.Y), "drop left operand of "+x.Op.String())
				}
			case *ast.IfStmt:
				c := x.Cond
				add(x, off(c.Pos()), off(c.End()), "false && ("+text(c)+")", "if-cond -> false")
				if _, rel := c.(*ast.BinaryExpr); !rel || true {
					add(x, off(c.Pos()), off(c.End()), "!("+text(c)+")", "if-cond negated")
				}
				add(x, off(c.Pos()), off(c.End()), "true || ("+text(c)+")", "if-cond -> true")
			case *ast.ExprStmt:
				if _, ok := x.X.(*ast.CallExpr); ok {
					add(x, off(x.Pos()), off(x.End()), "", "delete call statement")
				}
			case *ast.AssignStmt:
				if x.Tok == token.ASSIGN || x.Tok == token.ADD_ASSIGN || x.Tok == token.SUB_ASSIGN {
					add(x, off(x.Pos()), off(x.End()), "", "delete assignment")
				}
				if x.Tok == token.ADD_ASSIGN {
					add(x, off(x.TokPos), off(x.TokPos)+2, "-=", "+= -> -=")
					add(x, off(x.TokPos), off(x.TokPos)+2, "=", "+= -> =")
				}
				if x.Tok == token.DEFINE && len(x.Lhs) == 2 && len(x.Rhs) == 1 {
					// x, err := f()  ->  x, _ := f()  cannot compile if err used later and not declared; skip
				}
			case *ast.IncDecStmt:
				add(x, off(x.Pos()), off(x.End()), "", "delete inc/dec")
			case *ast.DeferStmt:
				add(x, off(x.Pos()), off(x.End()), "", "delete defer")
			case *ast.GoStmt:
				add(x, off(x.Pos()), off(x.Pos())+2, "", "go stmt -> synchronous call")
			case *ast.BranchStmt:
				if x.Label == nil {
					switch x.Tok {
					case token.CONTINUE:
						add(x, off(x.Pos()), off(x.End()), "break", "continue -> break")
					case token.BREAK:
						add(x, off(x.Pos()), off(x.End()), "continue", "break -> continue")
					}
				}
			case *ast.ReturnStmt:
				for _, r := range x.Results {
					if id, ok := r.(*ast.Ident); ok {
						switch id.Name {
						case "true":
							add(x, off(id.Pos()), off(id.End()), "false", "return true -> false")
						case "false":
							add(x, off(id.Pos()), off(id.End()), "true", "return false -> true")
						case "err":
							if len(x.Results) >= 1 && r == x.Results[len(x.Results)-1] {
								add(x, off(id.Pos()), off(id.End()), "nil", "return err -> nil")
							}
						}
					}
				}
				if len(x.Results) > 0 {
					last := x.Results[len(x.Results)-1]
					if _, isId := last.(*ast.Ident); !isId {
						// return ..., SomeErr / fmt.Errorf(...) -> nil (compiles only when last result is an interface/pointer)
						add(x, off(last.Pos()), off(last.End()), "nil", "return <error expr> -> nil")
					}
				}
			case *ast.CallExpr:
				for i := 0; i+1 < len(x.Args); i++ {
					a, b := x.Args[i], x.Args[i+1]
					if text(a) == text(b) {
						continue
					}
					add(x, off(a.Pos()), off(b.End()), text(b)+string(src[off(a.End()):off(b.Pos())])+text(a), fmt.Sprintf("swap args %d,%d", i, i+1))
				}
			case *ast.BasicLit:
				if x.Kind == token.INT {
					switch x.Value {
					case "0":
						add(x, off(x.Pos()), off(x.End()), "1", "const 0 -> 1")
					case "1":
						add(x, off(x.Pos()), off(x.End()), "0", "const 1 -> 0")
						add(x, off(x.Pos()), off(x.End()), "2", "const 1 -> 2")
					default:
						add(x, off(x.Pos()), off(x.End()), "("+x.Value+"+1)", "const n -> n+1")
						add(x, off(x.Pos()), off(x.End()), "("+x.Value+"-1)", "const n -> n-1")
					}
				}
			case *ast.Ident:
				if x.Name == "true" || x.Name == "false" {
					// handled for returns; also flip in assignments/args
				}
			case *ast.SliceExpr:
				if x.Low != nil {
					add(x, off(x.Low.Pos()), off(x.Low.End()), "("+text(x.Low)+")+1", "slice low +1")
				}
				if x.High != nil {
					add(x, off(x.High.Pos()), off(x.High.End()), "("+text(x.High)+")-1", "slice high -1")
				}
			case *ast.RangeStmt:
				// range X -> range X[1:] / X[:len(X)-1] when X is a plain identifier or selector (slices only compile)
				switch x.X.(type) {
				case *ast.Ident, *ast.SelectorExpr:
					t := text(x.X)
					add(x, off(x.X.Pos()), off(x.X.End()), t+"[1:]", "range skips first")
					add(x, off(x.X.Pos()), off(x.X.End()), t+"[:len("+t+")-1]", "range skips last")
				}
			case *ast.UnaryExpr:
				if x.Op == token.NOT {
					add(x, off(x.Pos()), off(x.Pos())+1, "", "drop !")
				}
			}
			return true
		})
		_ = loopDepth
		_ = walk
	}
}

func isStringy(x *ast.BinaryExpr) bool {
	var has func(e ast.Expr) bool
	has = func(e ast.Expr) bool {
		switch y := e.(type) {
		case *ast.BasicLit:
			return y.Kind == token.STRING
		case *ast.BinaryExpr:
			return has(y.X) || has(y.Y)
		case *ast.ParenExpr:
			return has(y.X)
		}
		return false
	}
	return has(x)
}
