#!/bin/bash
# Runs the witness tests of the recorded known findings (known_findings_demos/) against /repo HEAD in the
# scratch worktree. Each test PASSES when the recorded defect is (still) present in the code. These are
# supporting demonstrations for known_findings.json; they are not part of any registered check.
SCR=/tmp/wt/scratch
export GOFLAGS=-mod=mod GOPROXY=off
if [ ! -d "$SCR" ]; then git -C /repo worktree add -q --detach "$SCR" HEAD || exit 2; fi
git -C "$SCR" checkout -q --detach "$(git -C /repo rev-parse HEAD)" 2>/dev/null
cd "$SCR"; git checkout -q -- .; git clean -qfd
for f in /verif/known_findings_demos/*_test.go; do
  pk=$(grep -m1 '^package ' "$f" | awk '{print $2}'); pk=${pk%_test}
  cp "$f" "$pk/"
done
go test -tags kfdemo -vet=off -count=1 -run TestKF -v ./mint/ ./wallet/ 2>&1 | grep -E "^(=== RUN|--- |ok|FAIL|PASS)" | grep -v "=== RUN"
git checkout -q -- .; git clean -qfd
