#!/usr/bin/env python3
"""Regenerates /verif/MANIFEST.json from the table below. Keep CLAIMED in step with the rules
registered in checker/nc (bin/nutcheck -property all lists them)."""
import json, os, sys
HERE = os.path.dirname(os.path.dirname(os.path.abspath(__file__)))
props = [json.loads(l) for l in open(os.path.join(HERE, 'properties.jsonl'))]

# property -> (technique, level text, level note, design ref)
CLAIMED = {}
NOT_YET = {}
exec(open(os.path.join(HERE, 'tools', 'claims.py')).read())

checks = []
na = []
for p in props:
    pid = p['id']
    if pid in CLAIMED:
        tech, text, note, ref = CLAIMED[pid]
        checks.append({
            "property_id": pid,
            "quick_cmd": "./check.sh %s quick" % pid,
            "thorough_cmd": "./check.sh %s thorough" % pid,
            "evidence_file": "/verif/evidence/%s.json" % pid,
            "replay_cmd_template": "./check.sh --replay {path}",
            "engine": "nutcheck",
            "level_claimed": {"category": "other", "text": text, "design_ref": ref},
            "level_note": note,
            "technique": tech,
        })
    else:
        na.append({"property_id": pid, "reason": NOT_YET.get(pid, "no sound static clause built yet in this round; see DESIGN.md")})

m = {
    "version": 1,
    "setup_cmd": "cd /verif/checker && GOFLAGS=-mod=vendor GOPROXY=off go build -o /verif/bin/nutcheck ./cmd/nutcheck",
    "hooks": {
        "guard": "verif",
        "enable": "none needed: the checks are static and read /repo's working tree; nothing in /repo is built with a tag or executed",
        "baseline_off_cmd": "cd /repo && go test -mod=mod -vet=off -count=1 ./...",
        "source_commits": [],
        "add_only": True,
    },
    "engines": [{
        "name": "nutcheck",
        "path": "/verif/checker",
        "serves_properties": [c["property_id"] for c in checks],
        "kind_free_text": "repository-specific static analyser (go/packages + go/ssa): provenance expressions, edge-cut must-pass-through with interprocedural nil-return summaries and whole-range-loop (forall) facts, SQL/schema reader, path enumeration over effect traces; decides named structural clauses of each property on every path, executes nothing",
    }],
    "checks": checks,
    "not_applicable": na,
    "notes": "All claims are at level 'other': each check decides named structural necessary conditions (clauses) of the property for all paths of the current source, not the behaviour itself; DESIGN.md lists per property what is decided and what is not. Known genuine defects that are recorded rather than repaired are in known_findings.json (KNOWN-FINDING lines); repaired ones are 'fix:' commits in /repo listed there under 'fixed'.",
}
json.dump(m, open(os.path.join(HERE, 'MANIFEST.json'), 'w'), indent=1)
print("MANIFEST.json: %d checks, %d not_applicable" % (len(checks), len(na)))
