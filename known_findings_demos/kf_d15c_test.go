//go:build kfdemo

// D15c - MeltTokens, after the invoice has been paid, removes the inputs from
// the pending table (RemovePendingProofs) and then inserts them into the spent
// table (SaveProofs) with a second storage call. This happens in settleProofs
// (external Lightning payment succeeded) and, inline, after an internal
// settlement (a mint quote of this mint has the same invoice).
//
// Scenario 1 (Lightning): a client melts 21 sat for an external invoice. The
// node pays it (SendPayment = Succeeded). RemovePendingProofs runs; then the
// process dies before SaveProofs / SaveProofs returns a storage error. Restart.
//
// Scenario 2 (internal): a payee has an (unpaid) 21 sat mint quote at this
// mint; the payer melts 21 sat for that invoice. The quotes are settled
// internally (melt quote PAID, mint quote PAID), RemovePendingProofs runs, then
// the same fault before/at SaveProofs. Restart.
//
// Bad outcome asserted: the invoice was paid with these inputs (scenario 1:
// the node shows the outgoing payment as succeeded; scenario 2: the payee mints
// 21 sat from the credited mint quote), yet after the restart the very same
// inputs are UNSPENT and are accepted in a swap for 21 sat of fresh ecash.
// The mint paid out twice for one set of proofs.
//
//	go test -tags kfdemo -vet=off -count=1 -run TestKF_D15c ./mint/
package mint

import (
	"context"
	"testing"

	"github.com/elnosh/gonuts/cashu"
	"github.com/elnosh/gonuts/cashu/nuts/nut04"
	"github.com/elnosh/gonuts/cashu/nuts/nut05"
	"github.com/elnosh/gonuts/cashu/nuts/nut07"
)

func TestKF_D15c_MeltPaidInputsSpendableAgain_Lightning(t *testing.T) {
	const amount = 21
	ctx := context.Background()

	for _, mode := range []kfMode{kfDie, kfStorageError} {
		t.Run(mode.String()+" SaveProofs in settleProofs", func(t *testing.T) {
			node := kfNewNode()
			m, config := kfNewMint(t, node)
			defer func() { m.Shutdown() }()

			inputs := kfFund(t, m, amount)
			meltQuote, paymentHash := kfExternalMeltQuote(t, m, amount)

			db := kfWrap(m, kfFaultAt("SaveProofs", 0, mode))
			var meltErr error
			died := kfRun(func() {
				_, meltErr = m.MeltTokens(ctx, nut05.PostMeltBolt11Request{Quote: meltQuote.Id, Inputs: inputs})
			})
			t.Logf("storage calls of the interrupted MeltTokens: %v", db.Trace())
			t.Logf("melt: died=%v err=%v", died, meltErr)
			if !died && meltErr == nil {
				t.Fatal("fault was not triggered")
			}

			m = kfRestart(t, m, config)

			// the invoice has been paid by the node
			if !node.kfPaid(paymentHash) {
				t.Fatal("test setup: the node should have paid the invoice")
			}

			// the mint's own view of the inputs: unspent
			states, err := m.ProofsStateCheck(kfYs(t, inputs))
			if err != nil {
				t.Fatal(err)
			}
			for _, s := range states {
				if s.State != nut07.Unspent {
					t.Fatalf("expected input %v to be UNSPENT, got %v", s.Y, s.State)
				}
			}
			q, err := m.GetMeltQuoteState(ctx, meltQuote.Id)
			if err != nil {
				t.Fatal(err)
			}
			t.Logf("melt quote state after restart + check: %v (preimage %q)", q.State, q.Preimage)

			// and they are accepted again
			fresh, err := kfTrySwap(t, m, inputs)
			if err != nil {
				t.Fatalf("expected the inputs that paid the invoice to be spendable again, but swap failed: %v", err)
			}
			// the fresh ecash is good (spend it once more to be sure)
			if _, err := kfTrySwap(t, m, fresh); err != nil {
				t.Fatalf("fresh ecash not valid: %v", err)
			}
			t.Logf("DEFECT DEMONSTRATED (%v SaveProofs): the node paid the %d sat invoice (hash %s…) and the same inputs "+
				"were swapped for %d sat of fresh, valid ecash after the restart", mode, amount, paymentHash[:8], fresh.Amount())
		})
	}
}

func TestKF_D15c_MeltPaidInputsSpendableAgain_Internal(t *testing.T) {
	const amount = 21
	ctx := context.Background()

	for _, mode := range []kfMode{kfDie, kfStorageError} {
		t.Run(mode.String()+" SaveProofs after internal settlement", func(t *testing.T) {
			node := kfNewNode()
			m, config := kfNewMint(t, node)
			defer func() { m.Shutdown() }()

			// payer's ecash
			inputs := kfFund(t, m, amount)

			// payee's mint quote, invoice not paid on Lightning, watcher silent
			node.UnpaidInvoices, node.ManualSub = true, true
			payeeQuote, err := m.RequestMintQuote(nut04.PostMintQuoteBolt11Request{Amount: amount, Unit: cashu.Sat.String()})
			if err != nil {
				t.Fatal(err)
			}
			if q, _ := m.GetMintQuoteState(payeeQuote.Id); q.State != nut04.Unpaid {
				t.Fatalf("test setup: payee quote should be UNPAID, is %v", q.State)
			}

			// payer melts for the payee's invoice
			meltQuote, err := m.RequestMeltQuote(nut05.PostMeltQuoteBolt11Request{Request: payeeQuote.PaymentRequest, Unit: cashu.Sat.String()})
			if err != nil {
				t.Fatal(err)
			}

			db := kfWrap(m, kfFaultAt("SaveProofs", 0, mode))
			var meltErr error
			died := kfRun(func() {
				_, meltErr = m.MeltTokens(ctx, nut05.PostMeltBolt11Request{Quote: meltQuote.Id, Inputs: inputs})
			})
			t.Logf("storage calls of the interrupted MeltTokens: %v", db.Trace())
			t.Logf("melt: died=%v err=%v", died, meltErr)
			if !died && meltErr == nil {
				t.Fatal("fault was not triggered")
			}

			m = kfRestart(t, m, config)

			// the payee was credited and mints its 21 sat
			payeeOut := kfNewOutputs(t, amount, m.GetActiveKeyset().Id)
			payeeSigs, err := m.MintTokens(nut04.PostMintBolt11Request{Quote: payeeQuote.Id, Outputs: payeeOut.msgs})
			if err != nil {
				t.Fatalf("expected the payee to be able to mint (quote credited internally): %v", err)
			}
			q, _ := m.GetMeltQuoteState(ctx, meltQuote.Id)
			if q.State != nut05.Paid {
				t.Fatalf("expected melt quote PAID, got %v", q.State)
			}

			// the payer's inputs are accepted again
			fresh, err := kfTrySwap(t, m, inputs)
			if err != nil {
				t.Fatalf("expected the inputs that paid the invoice to be spendable again, but swap failed: %v", err)
			}
			t.Logf("DEFECT DEMONSTRATED (%v SaveProofs): melt quote PAID, payee minted %d sat from the internally settled quote, "+
				"and the payer swapped the same inputs for %d sat of fresh ecash: %d sat in, %d sat out",
				mode, payeeSigs.Amount(), fresh.Amount(), amount, payeeSigs.Amount()+fresh.Amount())
		})
	}
}
