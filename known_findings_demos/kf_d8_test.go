//go:build kfdemo

// D8 - the background invoice watcher re-opens a mint quote.
//
// RequestMintQuote starts `go m.checkInvoicePaid(ctx, quoteId)`. When the
// invoice subscription reports the invoice as settled, the watcher writes
// UpdateMintQuoteState(PAID) unconditionally - it uses the quote it read when
// it started and never looks at the current state. The same quote can
// meanwhile have been moved on by the polling path (GetMintQuoteState asks the
// backend itself, MintTokens builds on that).
//
// Scenario 1 (after ISSUED): the client pays the invoice and calls MintTokens
// straight away. MintTokens polls the backend, sees the invoice settled, and
// issues the 21 sat (quote ISSUED). Only then does the subscription event
// reach the watcher (forced here: the node's subscription delivers when the
// test says so). The watcher writes PAID. The client sends a second mint
// request with fresh outputs.
//
// Scenario 2 (while PENDING): mint request A is held after it wrote PENDING
// (blocking storage wrapper); the watcher fires and writes PAID; mint request
// B reads PAID and is served; A continues and is served too.
//
// Bad outcome asserted (both): two mint requests for one 21 sat quote are both
// signed: 42 sat of valid ecash for one 21 sat payment.
//
//	go test -tags kfdemo -vet=off -count=1 -run TestKF_D8 ./mint/
package mint

import (
	"testing"
	"time"

	"github.com/elnosh/gonuts/cashu"
	"github.com/elnosh/gonuts/cashu/nuts/nut04"
	"github.com/elnosh/gonuts/mint/lightning"
)

func kfWaitMintQuoteState(t *testing.T, m *Mint, id string, want nut04.State) {
	t.Helper()
	for i := 0; i < 1000; i++ {
		q, err := m.db.GetMintQuote(id)
		if err == nil && q.State == want {
			return
		}
		time.Sleep(5 * time.Millisecond)
	}
	t.Fatalf("mint quote %v did not reach state %v", id, want)
}

func TestKF_D8_InvoiceWatcherReopensQuote(t *testing.T) {
	const amount = 21

	t.Run("watcher fires after the quote was ISSUED", func(t *testing.T) {
		node := kfNewNode()
		node.UnpaidInvoices, node.ManualSub = true, true
		m, _ := kfNewMint(t, node)
		defer func() { m.Shutdown() }()

		quote, err := m.RequestMintQuote(nut04.PostMintQuoteBolt11Request{Amount: amount, Unit: cashu.Sat.String()})
		if err != nil {
			t.Fatal(err)
		}
		if q, _ := m.GetMintQuoteState(quote.Id); q.State != nut04.Unpaid {
			t.Fatalf("test setup: quote should be UNPAID, is %v", q.State)
		}

		// the client pays the invoice ...
		node.SetInvoiceStatus(quote.PaymentHash, lightning.Succeeded)
		// ... and mints at once (MintTokens polls the backend itself)
		out1 := kfNewOutputs(t, amount, m.GetActiveKeyset().Id)
		sigs1, err := m.MintTokens(nut04.PostMintBolt11Request{Quote: quote.Id, Outputs: out1.msgs})
		if err != nil {
			t.Fatalf("first mint: %v", err)
		}
		if q, _ := m.GetMintQuoteState(quote.Id); q.State != nut04.Issued {
			t.Fatalf("expected ISSUED after the first mint, got %v", q.State)
		}
		// a second request is refused at this point
		if _, err := m.MintTokens(nut04.PostMintBolt11Request{Quote: quote.Id,
			Outputs: kfNewOutputs(t, amount, m.GetActiveKeyset().Id).msgs}); !kfIsErr(err, cashu.MintQuoteAlreadyIssued) {
			t.Fatalf("expected 'quote already issued', got %v", err)
		}

		// now the subscription event reaches the watcher
		node.Notify(quote.PaymentHash)
		kfWaitMintQuoteState(t, m, quote.Id, nut04.Paid)
		t.Logf("the watcher moved the quote from ISSUED back to PAID")

		out2 := kfNewOutputs(t, amount, m.GetActiveKeyset().Id)
		sigs2, err := m.MintTokens(nut04.PostMintBolt11Request{Quote: quote.Id, Outputs: out2.msgs})
		if err != nil {
			t.Fatalf("expected the re-opened quote to be minted a second time (defect), got: %v", err)
		}

		p1 := kfUnblind(t, m, out1, out1.msgs, sigs1)
		p2 := kfUnblind(t, m, out2, out2.msgs, sigs2)
		if _, err := kfTrySwap(t, m, p1); err != nil {
			t.Fatalf("first ecash not valid: %v", err)
		}
		if _, err := kfTrySwap(t, m, p2); err != nil {
			t.Fatalf("second ecash not valid: %v", err)
		}
		t.Logf("DEFECT DEMONSTRATED: one paid %d sat quote was minted twice: %d sat of valid ecash", amount, p1.Amount()+p2.Amount())
	})

	t.Run("watcher fires while the quote is PENDING", func(t *testing.T) {
		node := kfNewNode()
		node.UnpaidInvoices, node.ManualSub = true, true
		m, _ := kfNewMint(t, node)
		defer func() { m.Shutdown() }()

		quote, err := m.RequestMintQuote(nut04.PostMintQuoteBolt11Request{Amount: amount, Unit: cashu.Sat.String()})
		if err != nil {
			t.Fatal(err)
		}
		node.SetInvoiceStatus(quote.PaymentHash, lightning.Succeeded)

		// request A is held at the first GetBlindSignatures, i.e. right after it wrote PENDING
		aPending := make(chan struct{})
		release := make(chan struct{})
		first := true
		db := kfWrap(m, func(call string) error {
			if call == "GetBlindSignatures" && first {
				first = false
				close(aPending)
				<-release
			}
			return nil
		})

		type result struct {
			sigs cashu.BlindedSignatures
			err  error
		}
		outA := kfNewOutputs(t, amount, m.GetActiveKeyset().Id)
		resA := make(chan result, 1)
		go func() {
			sigs, err := m.MintTokens(nut04.PostMintBolt11Request{Quote: quote.Id, Outputs: outA.msgs})
			resA <- result{sigs, err}
		}()
		select {
		case <-aPending:
		case <-time.After(10 * time.Second):
			t.Fatal("request A did not get to PENDING")
		}
		if q, _ := m.db.GetMintQuote(quote.Id); q.State != nut04.Pending {
			t.Fatalf("expected PENDING while request A is in flight, got %v", q.State)
		}

		// the watcher fires
		node.Notify(quote.PaymentHash)
		kfWaitMintQuoteState(t, m, quote.Id, nut04.Paid)

		// request B
		outB := kfNewOutputs(t, amount, m.GetActiveKeyset().Id)
		sigsB, errB := m.MintTokens(nut04.PostMintBolt11Request{Quote: quote.Id, Outputs: outB.msgs})
		close(release)
		var a result
		select {
		case a = <-resA:
		case <-time.After(10 * time.Second):
			t.Fatal("request A did not finish")
		}
		kfUnwrap(m)
		t.Logf("interleaved storage calls: %v", db.Trace())
		t.Logf("request A: %d sat err=%v; request B: %d sat err=%v", a.sigs.Amount(), a.err, sigsB.Amount(), errB)
		if a.err != nil || errB != nil {
			t.Fatalf("expected both requests to be signed (defect), got errA=%v errB=%v", a.err, errB)
		}
		pA := kfUnblind(t, m, outA, outA.msgs, a.sigs)
		pB := kfUnblind(t, m, outB, outB.msgs, sigsB)
		if _, err := kfTrySwap(t, m, pA); err != nil {
			t.Fatalf("ecash A not valid: %v", err)
		}
		if _, err := kfTrySwap(t, m, pB); err != nil {
			t.Fatalf("ecash B not valid: %v", err)
		}
		t.Logf("DEFECT DEMONSTRATED: one paid %d sat quote was minted twice: %d sat of valid ecash", amount, pA.Amount()+pB.Amount())
	})
}
