//go:build kfdemo

// D15b - MeltTokens with internal settlement (a mint quote of this mint has the
// same invoice): settleQuotesInternally writes the melt quote PAID
// (UpdateMeltQuote) BEFORE the mint quote is credited
// (UpdateMintQuoteState(PAID)) and before the inputs are settled
// (RemovePendingProofs + SaveProofs).
//
// Scenario: a payee holds an unpaid 21 sat mint quote. A payer melts 21 sat for
// that invoice. The melt quote is written PAID; then the process dies before
// UpdateMintQuoteState(PAID) / that call returns a storage error (MeltTokens
// returns the error). Restart.
//
// Bad outcome asserted:
//   - the melt quote is PAID (with the invoice's preimage handed out),
//   - the payee's mint quote is still UNPAID: MintTokens answers "quote request
//     has not been paid" (the invoice was never paid on Lightning, so nothing
//     will ever credit it),
//   - the payer's inputs are PENDING forever: melt retry answers "quote already
//     paid", swap answers "proof is pending", GetMeltQuoteState does nothing for
//     a PAID quote, ProofsStateCheck keeps reporting PENDING.
//
// 21 sat left the payer and reached nobody.
//
//	go test -tags kfdemo -vet=off -count=1 -run TestKF_D15b ./mint/
package mint

import (
	"context"
	"testing"

	"github.com/elnosh/gonuts/cashu"
	"github.com/elnosh/gonuts/cashu/nuts/nut04"
	"github.com/elnosh/gonuts/cashu/nuts/nut05"
	"github.com/elnosh/gonuts/cashu/nuts/nut07"
)

func TestKF_D15b_InternalSettlementMeltPaidMintNeverCredited(t *testing.T) {
	const amount = 21
	ctx := context.Background()

	for _, mode := range []kfMode{kfDie, kfStorageError} {
		t.Run(mode.String()+" UpdateMintQuoteState(PAID) in settleQuotesInternally", func(t *testing.T) {
			node := kfNewNode()
			m, config := kfNewMint(t, node)
			defer func() { m.Shutdown() }()

			// payer's ecash
			inputs := kfFund(t, m, amount)

			// payee's mint quote: invoice unpaid on Lightning, invoice watcher silent
			node.UnpaidInvoices, node.ManualSub = true, true
			payeeQuote, err := m.RequestMintQuote(nut04.PostMintQuoteBolt11Request{Amount: amount, Unit: cashu.Sat.String()})
			if err != nil {
				t.Fatal(err)
			}
			meltQuote, err := m.RequestMeltQuote(nut05.PostMeltQuoteBolt11Request{Request: payeeQuote.PaymentRequest, Unit: cashu.Sat.String()})
			if err != nil {
				t.Fatal(err)
			}
			req := nut05.PostMeltBolt11Request{Quote: meltQuote.Id, Inputs: inputs}

			db := kfWrap(m, kfFaultAt("UpdateMintQuoteState(PAID)", 0, mode))
			var meltErr error
			died := kfRun(func() { _, meltErr = m.MeltTokens(ctx, req) })
			t.Logf("storage calls of the interrupted MeltTokens: %v", db.Trace())
			t.Logf("melt: died=%v err=%v", died, meltErr)
			if !died && meltErr == nil {
				t.Fatal("fault was not triggered")
			}

			m = kfRestart(t, m, config)

			for round := 0; round < 2; round++ {
				// melt quote: PAID
				mq, err := m.GetMeltQuoteState(ctx, meltQuote.Id)
				if err != nil {
					t.Fatal(err)
				}
				if mq.State != nut05.Paid {
					t.Fatalf("expected melt quote PAID, got %v", mq.State)
				}

				// payee: never credited
				pq, err := m.GetMintQuoteState(payeeQuote.Id)
				if err != nil {
					t.Fatal(err)
				}
				if pq.State != nut04.Unpaid {
					t.Fatalf("expected payee's mint quote UNPAID, got %v", pq.State)
				}
				payeeOut := kfNewOutputs(t, amount, m.GetActiveKeyset().Id)
				if _, err := m.MintTokens(nut04.PostMintBolt11Request{Quote: payeeQuote.Id, Outputs: payeeOut.msgs}); !kfIsErr(err, cashu.MintQuoteRequestNotPaid) {
					t.Fatalf("payee mint: expected 'quote request has not been paid', got: %v", err)
				}

				// payer: inputs locked
				states, err := m.ProofsStateCheck(kfYs(t, inputs))
				if err != nil {
					t.Fatal(err)
				}
				for _, s := range states {
					if s.State != nut07.Pending {
						t.Fatalf("expected input %v to be PENDING, got %v", s.Y, s.State)
					}
				}
				if _, err := m.MeltTokens(ctx, req); !kfIsErr(err, cashu.MeltQuoteAlreadyPaid) {
					t.Fatalf("melt retry: expected 'quote already paid', got: %v", err)
				}
				if _, err := kfTrySwap(t, m, inputs); !kfIsErr(err, cashu.ProofPendingErr) {
					t.Fatalf("swap: expected 'proof is pending', got: %v", err)
				}
				m = kfRestart(t, m, config)
			}

			t.Logf("DEFECT DEMONSTRATED (%v UpdateMintQuoteState(PAID)): melt quote PAID, payee's mint quote UNPAID "+
				"(cannot mint), payer's %d sat of inputs PENDING forever (melt retry: already paid; swap: proof is pending)",
				mode, amount)
		})
	}
}
