//go:build kfdemo

// D15d - GetMeltQuoteState, for a PENDING melt quote whose payment the backend
// now reports as succeeded, first deletes the pending rows
// (removePendingProofsForQuote -> RemovePendingProofs; from then on the inputs
// exist only in memory) and then marks them spent with a second storage call
// (SaveProofs).
//
// Scenario: a client melts 21 sat for an external invoice; the payment is
// in flight (SendPayment = Pending), so the melt quote and the inputs are left
// PENDING. The payment then succeeds on the node. The wallet polls the quote
// (GetMeltQuoteState): RemovePendingProofs runs, then the process dies before
// SaveProofs / SaveProofs returns a storage error. Restart.
//
// Bad outcome asserted: the node paid the invoice with these inputs, and after
// the restart the same inputs are UNSPENT and are accepted in a swap for 21 sat
// of fresh ecash (while the quote itself is then happily reported PAID).
//
//	go test -tags kfdemo -vet=off -count=1 -run TestKF_D15d ./mint/
package mint

import (
	"context"
	"testing"

	"github.com/elnosh/gonuts/cashu/nuts/nut05"
	"github.com/elnosh/gonuts/cashu/nuts/nut07"
	"github.com/elnosh/gonuts/mint/lightning"
)

func TestKF_D15d_PendingMeltResolvedFreesPaidInputs(t *testing.T) {
	const amount = 21
	ctx := context.Background()

	for _, mode := range []kfMode{kfDie, kfStorageError} {
		t.Run(mode.String()+" SaveProofs in GetMeltQuoteState", func(t *testing.T) {
			node := kfNewNode()
			node.PaymentDelay = 3600 // outgoing payments stay in flight
			m, config := kfNewMint(t, node)
			defer func() { m.Shutdown() }()

			inputs := kfFund(t, m, amount)
			meltQuote, paymentHash := kfExternalMeltQuote(t, m, amount)

			res, err := m.MeltTokens(ctx, nut05.PostMeltBolt11Request{Quote: meltQuote.Id, Inputs: inputs})
			if err != nil || res.State != nut05.Pending {
				t.Fatalf("test setup: expected a PENDING melt, got state=%v err=%v", res.State, err)
			}
			states, _ := m.ProofsStateCheck(kfYs(t, inputs))
			for _, s := range states {
				if s.State != nut07.Pending {
					t.Fatalf("test setup: inputs should be PENDING, got %v", s.State)
				}
			}

			// the payment settles
			node.SetInvoiceStatus(paymentHash, lightning.Succeeded)

			// the wallet polls the quote; fault between RemovePendingProofs and SaveProofs
			db := kfWrap(m, kfFaultAt("SaveProofs", 0, mode))
			var checkErr error
			died := kfRun(func() { _, checkErr = m.GetMeltQuoteState(ctx, meltQuote.Id) })
			t.Logf("storage calls of the interrupted GetMeltQuoteState: %v", db.Trace())
			t.Logf("check: died=%v err=%v", died, checkErr)
			if !died && checkErr == nil {
				t.Fatal("fault was not triggered")
			}

			m = kfRestart(t, m, config)

			if !node.kfPaid(paymentHash) {
				t.Fatal("test setup: the node should have paid the invoice")
			}
			states, err = m.ProofsStateCheck(kfYs(t, inputs))
			if err != nil {
				t.Fatal(err)
			}
			for _, s := range states {
				if s.State != nut07.Unspent {
					t.Fatalf("expected input %v to be UNSPENT, got %v", s.Y, s.State)
				}
			}
			fresh, err := kfTrySwap(t, m, inputs)
			if err != nil {
				t.Fatalf("expected the inputs that paid the invoice to be spendable again, but swap failed: %v", err)
			}
			q, err := m.GetMeltQuoteState(ctx, meltQuote.Id)
			if err != nil {
				t.Fatal(err)
			}
			if q.State != nut05.Paid {
				t.Fatalf("expected the quote to end up PAID, got %v", q.State)
			}
			t.Logf("DEFECT DEMONSTRATED (%v SaveProofs): the node paid the %d sat invoice, melt quote is %v, and the same inputs "+
				"were swapped for %d sat of fresh ecash after the restart", mode, amount, q.State, fresh.Amount())
		})
	}
}
