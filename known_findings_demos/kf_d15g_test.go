//go:build kfdemo

// D15g - RotateKeyset deactivates the current keyset in storage
// (UpdateKeysetActive(old,false)) and then stores the new active keyset
// (SaveKeyset(new)) with a second storage call.
//
// Scenario: the operator rotates the keyset. After UpdateKeysetActive(false)
// the process dies before SaveKeyset / SaveKeyset returns a storage error
// (RotateKeyset returns the error). The mint is then started again on the same
// directory.
//
// Bad outcome asserted: storage holds keysets but none of them is active;
// LoadMint does not handle that: it leaves mint.activeKeyset nil and
// dereferences it ("setting active keyset ..." log line), so LoadMint PANICS
// with a nil pointer dereference - with and without Config.RotateKeyset. The
// mint cannot be started any more without manual surgery on the database.
//
//	go test -tags kfdemo -vet=off -count=1 -run TestKF_D15g ./mint/
package mint

import (
	"fmt"
	"runtime"
	"strings"
	"testing"
)

// kfLoadMintRecover calls LoadMint and converts a runtime panic into a string.
func kfLoadMintRecover(config Config) (m *Mint, err error, panicked string) {
	defer func() {
		if r := recover(); r != nil {
			if re, ok := r.(runtime.Error); ok {
				panicked = re.Error()
			} else {
				panicked = fmt.Sprint(r)
			}
		}
	}()
	m, err = LoadMint(config)
	return
}

func TestKF_D15g_RotateKeysetLeavesNoActiveKeyset(t *testing.T) {
	for _, mode := range []kfMode{kfDie, kfStorageError} {
		t.Run(mode.String()+" SaveKeyset", func(t *testing.T) {
			m, config := kfNewMint(t, kfNewNode())
			oldId := m.GetActiveKeyset().Id

			db := kfWrap(m, kfFaultAt("SaveKeyset", 0, mode))
			var rotErr error
			died := kfRun(func() { _, rotErr = m.RotateKeyset(100) })
			t.Logf("storage calls of the interrupted RotateKeyset: %v", db.Trace())
			t.Logf("rotate: died=%v err=%v", died, rotErr)
			if !died && rotErr == nil {
				t.Fatal("fault was not triggered")
			}

			// what is in storage now
			kfUnwrap(m)
			dbKeysets, err := m.db.GetKeysets()
			if err != nil {
				t.Fatal(err)
			}
			active := 0
			for _, k := range dbKeysets {
				if k.Active {
					active++
				}
			}
			if len(dbKeysets) != 1 || dbKeysets[0].Id != oldId || active != 0 {
				t.Fatalf("expected storage to hold only the old keyset, inactive; got %+v", dbKeysets)
			}
			if err := m.Shutdown(); err != nil {
				t.Fatal(err)
			}

			// restart
			m2, err, panicked := kfLoadMintRecover(config)
			if panicked == "" {
				if m2 != nil {
					m2.Shutdown()
				}
				t.Fatalf("expected LoadMint to panic on a storage without active keyset, got mint=%v err=%v", m2 != nil, err)
			}
			if !strings.Contains(panicked, "nil pointer dereference") {
				t.Fatalf("expected a nil pointer dereference, got panic: %v", panicked)
			}

			// restart with -rotate-keyset does not get out of it either
			config2 := config
			config2.RotateKeyset = true
			m3, err, panicked2 := kfLoadMintRecover(config2)
			if panicked2 == "" {
				if m3 != nil {
					m3.Shutdown()
				}
				t.Fatalf("expected LoadMint(RotateKeyset) to panic as well, got mint=%v err=%v", m3 != nil, err)
			}

			t.Logf("DEFECT DEMONSTRATED (%v SaveKeyset): storage has %d keyset(s), %d active; LoadMint panics: %q; "+
				"LoadMint with RotateKeyset panics: %q", mode, len(dbKeysets), active, panicked, panicked2)
		})
	}
}
