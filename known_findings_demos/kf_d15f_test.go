//go:build kfdemo

// D15f - MintTokens writes the quote PENDING while it validates and signs the
// outputs, and relies on a later storage call to leave that state again.
//
// Scenario A (dying): the client paid a 21 sat quote and calls MintTokens. The
// mint writes PENDING and dies before the next storage call. Restart.
//
// Scenario B (storage error): the client sends outputs that fail validation
// (sum of outputs above the quote amount - any validation failure will do). The
// mint wants to revert the quote to PAID, but that UpdateMintQuoteState(PAID)
// returns a storage error. Restart.
//
// Bad outcome asserted (both): the paid quote is PENDING in storage, and every
// later MintTokens - with the same or with fresh, valid outputs, before and
// after another restart - is answered "quote is pending". Nothing in the code
// base ever moves a mint quote out of PENDING except the request that put it
// there, so the 21 sat the client paid are lost.
//
//	go test -tags kfdemo -vet=off -count=1 -run TestKF_D15f ./mint/
package mint

import (
	"testing"

	"github.com/elnosh/gonuts/cashu"
	"github.com/elnosh/gonuts/cashu/nuts/nut04"
)

func kfD15fAssertStuckPending(t *testing.T, m *Mint, config Config, quoteId string, amount uint64) *Mint {
	t.Helper()
	for round := 0; round < 2; round++ {
		q, err := m.GetMintQuoteState(quoteId)
		if err != nil {
			t.Fatal(err)
		}
		if q.State != nut04.Pending {
			t.Fatalf("expected quote to be PENDING, got %v", q.State)
		}
		for i := 0; i < 3; i++ {
			fresh := kfNewOutputs(t, amount, m.GetActiveKeyset().Id)
			_, err := m.MintTokens(nut04.PostMintBolt11Request{Quote: quoteId, Outputs: fresh.msgs})
			if !kfIsErr(err, cashu.QuotePending) {
				t.Fatalf("expected 'quote is pending', got: %v", err)
			}
		}
		// another restart does not help
		m = kfRestart(t, m, config)
	}
	return m
}

func TestKF_D15f_PaidMintQuoteStuckPending(t *testing.T) {
	const amount = 21

	t.Run("process dies after the quote was written PENDING", func(t *testing.T) {
		m, config := kfNewMint(t, kfNewNode())
		defer func() { m.Shutdown() }()

		quote := kfPaidQuote(t, m, amount)
		out := kfNewOutputs(t, amount, m.GetActiveKeyset().Id)

		// the storage call that follows UpdateMintQuoteState(PENDING) is GetBlindSignatures
		db := kfWrap(m, kfFaultAt("GetBlindSignatures", 0, kfDie))
		died := kfRun(func() {
			m.MintTokens(nut04.PostMintBolt11Request{Quote: quote.Id, Outputs: out.msgs})
		})
		t.Logf("storage calls of the interrupted MintTokens: %v", db.Trace())
		if !died {
			t.Fatal("crash was not triggered")
		}
		m = kfRestart(t, m, config)
		m = kfD15fAssertStuckPending(t, m, config, quote.Id, amount)
		_, restored, _ := m.RestoreSignatures(out.msgs)
		if len(restored) != 0 {
			t.Fatalf("unexpected restorable signatures: %d", len(restored))
		}
		t.Logf("DEFECT DEMONSTRATED: paid %d sat quote is PENDING forever; every retry: %q; restore finds nothing",
			amount, cashu.QuotePending.Detail)
	})

	t.Run("storage error in the revert to PAID after a validation failure", func(t *testing.T) {
		m, config := kfNewMint(t, kfNewNode())
		defer func() { m.Shutdown() }()

		quote := kfPaidQuote(t, m, amount)
		// outputs worth more than the quote: rejected by validation
		tooMuch := kfNewOutputs(t, amount+1, m.GetActiveKeyset().Id)

		db := kfWrap(m, kfFaultAt("UpdateMintQuoteState(PAID)", 0, kfStorageError))
		_, mintErr := m.MintTokens(nut04.PostMintBolt11Request{Quote: quote.Id, Outputs: tooMuch.msgs})
		t.Logf("storage calls: %v; response: %v", db.Trace(), mintErr)
		if mintErr == nil {
			t.Fatal("expected an error response")
		}
		m = kfRestart(t, m, config)
		m = kfD15fAssertStuckPending(t, m, config, quote.Id, amount)
		t.Logf("DEFECT DEMONSTRATED: one failed revert leaves the paid %d sat quote PENDING forever; every retry: %q",
			amount, cashu.QuotePending.Detail)
	})
}
