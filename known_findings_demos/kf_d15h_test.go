//go:build kfdemo

// D15h - Swap: SaveProofs (inputs spent) and SaveBlindSignatures are two
// separate storage calls.
//
// Scenario: a client swaps 21 sat. The mint has signed the outputs and has
// written the inputs into the spent table (SaveProofs). Before/at the next
// storage call (SaveBlindSignatures) either the process dies, or the storage
// returns an error so that Swap returns an error instead of the signatures.
// The mint is restarted on the same directory.
//
// Bad outcome asserted: the inputs are spent ("proof already used") AND the
// signatures for the outputs were never returned and cannot be restored
// (/v1/restore = RestoreSignatures finds nothing). The client has lost 21 sat.
//
//	go test -tags kfdemo -vet=off -count=1 -run TestKF_D15h ./mint/
package mint

import (
	"testing"

	"github.com/elnosh/gonuts/cashu"
	"github.com/elnosh/gonuts/cashu/nuts/nut07"
)

func TestKF_D15h_SwapBurnsInputsWithoutSignatures(t *testing.T) {
	const amount = 21

	for _, mode := range []kfMode{kfDie, kfStorageError} {
		t.Run(mode.String()+" SaveBlindSignatures", func(t *testing.T) {
			m, config := kfNewMint(t, kfNewNode())
			defer func() { m.Shutdown() }()

			inputs := kfFund(t, m, amount)
			out := kfNewOutputs(t, amount, m.GetActiveKeyset().Id)

			db := kfWrap(m, kfFaultAt("SaveBlindSignatures", 0, mode))
			var sigs cashu.BlindedSignatures
			var swapErr error
			died := kfRun(func() { sigs, swapErr = m.Swap(inputs, out.msgs) })
			t.Logf("storage calls of the interrupted Swap: %v", db.Trace())
			if !died && swapErr == nil {
				t.Fatal("fault was not triggered")
			}
			if len(sigs) != 0 {
				t.Fatal("client got signatures although the swap was interrupted")
			}
			t.Logf("swap: died=%v err=%v", died, swapErr)

			m = kfRestart(t, m, config)

			// 1. the inputs are gone
			_, err := kfTrySwap(t, m, inputs)
			if !kfIsErr(err, cashu.ProofAlreadyUsedErr) {
				t.Fatalf("expected the inputs to be burnt (proof already used), got: %v", err)
			}
			states, err := m.ProofsStateCheck(kfYs(t, inputs))
			if err != nil {
				t.Fatal(err)
			}
			for _, s := range states {
				if s.State != nut07.Spent {
					t.Fatalf("expected input %v to be SPENT, got %v", s.Y, s.State)
				}
			}

			// 2. and nothing can be restored for the outputs
			_, restored, err := m.RestoreSignatures(out.msgs)
			if err != nil {
				t.Fatal(err)
			}
			if len(restored) != 0 {
				t.Fatalf("expected nothing to restore, got %d signatures", len(restored))
			}

			t.Logf("DEFECT DEMONSTRATED (%v SaveBlindSignatures): %d sat of inputs are SPENT, "+
				"the swap returned no signatures and restore finds 0 of %d outputs", mode, amount, len(out.msgs))
		})
	}
}
