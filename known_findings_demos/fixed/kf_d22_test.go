//go:build demo

package mint_test

// Witness for D22 (property C02, "no inflation"): a client-crafted bolt11 invoice that reuses the payment hash of
// one of the mint's own (unpaid, large) mint quotes but carries a tiny amount is treated as an "internal" invoice
// because the match is by payment hash only. Melting it with 1 sat marks the large mint quote PAID.

import (
	"context"
	"encoding/hex"
	"errors"
	"testing"
	"time"

	"github.com/decred/dcrd/dcrec/secp256k1/v4/ecdsa"
	"github.com/btcsuite/btcd/chaincfg"
	"github.com/decred/dcrd/dcrec/secp256k1/v4"
	"github.com/elnosh/gonuts/cashu"
	"github.com/elnosh/gonuts/cashu/nuts/nut04"
	"github.com/elnosh/gonuts/cashu/nuts/nut05"
	"github.com/elnosh/gonuts/mint"
	"github.com/elnosh/gonuts/mint/lightning"
	"github.com/elnosh/gonuts/testutils"
	"github.com/lightningnetwork/lnd/lnwire"
	"github.com/lightningnetwork/lnd/zpay32"
)

type d22LN struct {
	*lightning.FakeBackend
	inflow uint64
}

func (l *d22LN) CreateInvoice(amount uint64) (lightning.Invoice, error) {
	inv, err := l.FakeBackend.CreateInvoice(amount)
	if err != nil {
		return inv, err
	}
	l.FakeBackend.SetInvoiceStatus(inv.PaymentHash, lightning.Pending)
	inv.Settled = false
	return inv, nil
}
func (l *d22LN) SubscribeInvoice(ctx context.Context, hash string) (lightning.InvoiceSubscriptionClient, error) {
	return nil, errors.New("no subscriptions")
}
func (l *d22LN) pay(hash string, amount uint64) {
	l.FakeBackend.SetInvoiceStatus(hash, lightning.Succeeded)
	l.inflow += amount
}

func d22Mint(t *testing.T, m *mint.Mint, quoteId string, amount uint64) (cashu.Proofs, error) {
	keyset := m.GetActiveKeyset()
	bms, secrets, rs, err := testutils.CreateBlindedMessages(amount, keyset.Id)
	if err != nil {
		t.Fatal(err)
	}
	sigs, err := m.MintTokens(nut04.PostMintBolt11Request{Quote: quoteId, Outputs: bms})
	if err != nil {
		return nil, err
	}
	return testutils.ConstructProofs(sigs, secrets, rs, keyset)
}

func craftInvoice(t *testing.T, hashHex string, amountSat uint64) string {
	hb, err := hex.DecodeString(hashHex)
	if err != nil || len(hb) != 32 {
		t.Fatalf("bad hash %q", hashHex)
	}
	var h [32]byte
	copy(h[:], hb)
	inv, err := zpay32.NewInvoice(&chaincfg.SigNetParams, h, time.Now(),
		zpay32.Amount(lnwire.MilliSatoshi(amountSat*1000)), zpay32.Description("crafted"))
	if err != nil {
		t.Fatal(err)
	}
	s, err := inv.Encode(zpay32.MessageSigner{SignCompact: func(msg []byte) ([]byte, error) {
		key, err := secp256k1.GeneratePrivateKey()
		if err != nil {
			return nil, err
		}
		return ecdsa.SignCompact(key, msg, true), nil
	}})
	if err != nil {
		t.Fatal(err)
	}
	return s
}

func TestD22CraftedInvoiceReusesPaymentHash(t *testing.T) {
	ln := &d22LN{FakeBackend: &lightning.FakeBackend{}}
	m, err := mint.LoadMint(mint.Config{MintPath: t.TempDir(), LightningClient: ln, LogLevel: mint.Disable})
	if err != nil {
		t.Fatal(err)
	}
	defer m.Shutdown()
	sat := cashu.Sat.String()

	// the attacker honestly buys 1 sat
	q0, err := m.RequestMintQuote(nut04.PostMintQuoteBolt11Request{Amount: 1, Unit: sat})
	if err != nil {
		t.Fatal(err)
	}
	ln.pay(q0.PaymentHash, 1)
	one, err := d22Mint(t, m, q0.Id, 1)
	if err != nil {
		t.Fatal(err)
	}

	// a mint quote for 100000 sat that is never paid over Lightning
	big, err := m.RequestMintQuote(nut04.PostMintQuoteBolt11Request{Amount: 100000, Unit: sat})
	if err != nil {
		t.Fatal(err)
	}
	// crafted invoice: same payment hash, 1 sat
	crafted := craftInvoice(t, big.PaymentHash, 1)
	mq, err := m.RequestMeltQuote(nut05.PostMeltQuoteBolt11Request{Request: crafted, Unit: sat})
	if err != nil {
		t.Logf("melt quote for the crafted invoice refused: %v", err)
		return
	}
	t.Logf("melt quote accepted: amount %d fee reserve %d", mq.Amount, mq.FeeReserve)
	melted, err := m.MeltTokens(context.Background(), nut05.PostMeltBolt11Request{Quote: mq.Id, Inputs: one})
	if err != nil {
		t.Logf("melt refused: %v", err)
		return
	}
	t.Logf("melt state %v", melted.State)
	proofs, err := d22Mint(t, m, big.Id, 100000)
	if err != nil {
		t.Logf("mint of the big quote refused: %v", err)
		return
	}
	t.Fatalf("INFLATION: %d sat minted on a quote never paid over Lightning (Lightning inflow %d sat, 1 sat melted)", proofs.Amount(), ln.inflow)
}
