//go:build kfdemo

// D21 - a swap that is REFUSED still burns its inputs when two outputs share a B_.
//
// cashu.CheckDuplicateBlindedMessages compares whole structs (amount, id, B_, witness). Two outputs with the
// same B_ but different amounts are not "duplicates" for it. Swap then signs both, marks the inputs spent
// (SaveProofs commits) and only afterwards fails in SaveBlindSignatures on the PRIMARY KEY of
// blind_signatures.b_: the request is answered with an error, no signature is returned, and the inputs are
// gone (C06: a refused request must change nothing).
//
//	go test -tags kfdemo -vet=off -count=1 -run TestKF_D21 ./mint/
package mint

import (
	"testing"

	"github.com/elnosh/gonuts/cashu"
	"github.com/elnosh/gonuts/cashu/nuts/nut07"
)

func TestKF_D21_RefusedSwapWithSharedB_BurnsInputs(t *testing.T) {
	node := kfNewNode()
	m, _ := kfNewMint(t, node)
	defer func() { m.Shutdown() }()

	inputs := kfFund(t, m, 3) // 1 + 2
	out := kfNewOutputs(t, 3, m.GetActiveKeyset().Id)
	// second output re-uses the first output's B_ with its own amount
	msgs := cashu.BlindedMessages{out.msgs[0], out.msgs[1]}
	msgs[1].B_ = msgs[0].B_

	_, err := m.Swap(inputs, msgs)
	if err == nil {
		t.Fatalf("expected the swap to be refused")
	}
	t.Logf("swap refused with: %v", err)

	states, err := m.ProofsStateCheck(kfYs(t, inputs))
	if err != nil {
		t.Fatal(err)
	}
	burnt := 0
	for _, s := range states {
		if s.State == nut07.Spent {
			burnt++
		}
	}
	if burnt == 0 {
		t.Fatalf("defect not present: the refused swap left the inputs unspent")
	}
	t.Logf("DEFECT DEMONSTRATED: swap answered with an error, %d of %d inputs are SPENT, no signatures returned", burnt, len(states))
	if _, err := kfTrySwap(t, m, inputs); err == nil {
		t.Fatalf("inputs still spendable?")
	}
}
