package wallet

// Witness for D24 (C18.R4): Restore saved the keysets it walked without their input fee, so a restored
// wallet charged itself no fee for proofs of a keyset the mint still charges for. Against a mint with
// input_fee_ppk = 100 that rotated once: before the fix the stored record of the old keyset has fee 0 and a
// Send with fees from restored old-keyset proofs is refused by the mint (or hands over too little); after the
// fix the record carries 100 and the recipient nets exactly the amount.

import (
	"fmt"
	"net"
	"net/http"
	"testing"
	"time"

	"github.com/elnosh/gonuts/cashu"
	"github.com/elnosh/gonuts/mint"
	"github.com/elnosh/gonuts/mint/lightning"
)

func d24StartMint(t *testing.T) (string, *mint.Mint) {
	l, err := net.Listen("tcp", "127.0.0.1:0")
	if err != nil {
		t.Fatal(err)
	}
	port := l.Addr().(*net.TCPAddr).Port
	l.Close()
	timeout := time.Second * 2
	m, err := mint.LoadMint(mint.Config{
		Port:            port,
		MintPath:        t.TempDir(),
		LightningClient: &lightning.FakeBackend{},
		InputFeePpk:     100,
		LogLevel:        mint.Disable,
		MeltTimeout:     &timeout,
	})
	if err != nil {
		t.Fatalf("LoadMint: %v", err)
	}
	server := mint.SetupMintServer(m, mint.ServerConfig{Port: port, MeltTimeout: &timeout})
	go server.Start()
	t.Cleanup(func() { server.Shutdown() })
	mintURL := fmt.Sprintf("http://127.0.0.1:%d", port)
	for i := 0; i < 100; i++ {
		resp, err := http.Get(mintURL + "/v1/info")
		if err == nil {
			resp.Body.Close()
			return mintURL, m
		}
		time.Sleep(50 * time.Millisecond)
	}
	t.Fatal("mint server did not come up")
	return "", nil
}

func d24Fund(t *testing.T, w *Wallet, amount uint64) {
	quote, err := w.RequestMint(amount, w.CurrentMint())
	if err != nil {
		t.Fatalf("RequestMint: %v", err)
	}
	if _, err := w.MintTokens(quote.Quote); err != nil {
		t.Fatalf("MintTokens: %v", err)
	}
}

func TestD24RestoredKeysetKeepsItsFee(t *testing.T) {
	mintURL, m := d24StartMint(t)
	shop, err := LoadWallet(Config{WalletPath: t.TempDir(), CurrentMintURL: mintURL})
	if err != nil {
		t.Fatal(err)
	}
	defer shop.Shutdown()
	w, err := LoadWallet(Config{WalletPath: t.TempDir(), CurrentMintURL: mintURL})
	if err != nil {
		t.Fatal(err)
	}
	mnemonic := w.Mnemonic()
	first := m.GetActiveKeyset().Id
	d24Fund(t, w, 64)
	if _, err := m.RotateKeyset(100); err != nil {
		t.Fatal(err)
	}
	w.Shutdown()

	restorePath := t.TempDir() + "/restored"
	if _, err := Restore(restorePath, mnemonic, []string{mintURL}); err != nil {
		t.Fatalf("Restore: %v", err)
	}
	rw, err := LoadWallet(Config{WalletPath: restorePath, CurrentMintURL: mintURL})
	if err != nil {
		t.Fatal(err)
	}
	defer rw.Shutdown()

	stored := rw.db.GetKeyset(first)
	if stored == nil {
		t.Fatalf("restored wallet has no record of keyset %v", first)
	}
	if stored.InputFeePpk != 100 {
		t.Errorf("restored record of keyset %v has input fee %v, the mint charges 100", first, stored.InputFeePpk)
	}

	before := shop.GetBalance()
	proofs, err := rw.Send(5, mintURL, true)
	if err != nil {
		t.Fatalf("Send(5, fees included) from the restored wallet: %v", err)
	}
	token, err := cashu.NewTokenV4(proofs, mintURL, cashu.Sat, false)
	if err != nil {
		t.Fatal(err)
	}
	if _, err := shop.Receive(token, false); err != nil {
		t.Fatalf("Receive: %v", err)
	}
	if got := shop.GetBalance() - before; got != 5 {
		t.Errorf("recipient netted %v, want 5", got)
	}
}
