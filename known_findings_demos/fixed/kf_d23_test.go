//go:build demo

package mint

// Witness for D23 (property C02, "no inflation"): the CLN backend builds the invoice with amount*1000 in uint64.
// For a requested amount above 2^64/1000 sat the product wraps, so the invoice asks for a few hundred sat while
// the mint quote keeps the requested amount: paying the small invoice mints the huge amount.

import (
	"crypto/rand"
	"encoding/hex"
	"encoding/json"
	"io"
	"net/http"
	"net/http/httptest"
	"sync"
	"testing"
	"time"

	"github.com/decred/dcrd/dcrec/secp256k1/v4"
	"github.com/elnosh/gonuts/cashu"
	"github.com/elnosh/gonuts/cashu/nuts/nut04"
	"github.com/elnosh/gonuts/crypto"
	"github.com/elnosh/gonuts/mint/lightning"
)

type d23Invoice struct {
	bolt11, preimage, hash string
	msat                   uint64
}

type d23FakeCLN struct {
	mu       sync.Mutex
	invoices map[string]d23Invoice
	paidMsat uint64
}

func (f *d23FakeCLN) ServeHTTP(rw http.ResponseWriter, req *http.Request) {
	f.mu.Lock()
	defer f.mu.Unlock()
	raw, _ := io.ReadAll(req.Body)
	var body map[string]any
	_ = json.Unmarshal(raw, &body)
	write := func(code int, v any) {
		rw.Header().Set("Content-Type", "application/json")
		rw.WriteHeader(code)
		json.NewEncoder(rw).Encode(v)
	}
	invoiceJSON := func(inv d23Invoice) map[string]any {
		return map[string]any{"label": inv.hash, "bolt11": inv.bolt11, "payment_hash": inv.hash, "payment_preimage": inv.preimage,
			"amount_msat": inv.msat, "status": "paid", "expires_at": time.Now().Add(time.Hour).Unix()}
	}
	switch req.URL.Path {
	case "/v1/getinfo":
		write(http.StatusOK, map[string]any{"id": "fakecln"})
	case "/v1/invoice":
		msat := uint64(body["amount_msat"].(float64))
		bolt11, preimage, hash, err := lightning.CreateFakeInvoice(msat/1000, false)
		if err != nil {
			write(http.StatusInternalServerError, map[string]any{"code": 1, "message": err.Error()})
			return
		}
		f.invoices[hash] = d23Invoice{bolt11, preimage, hash, msat}
		f.paidMsat += msat // the payer pays exactly what the invoice asks for
		write(http.StatusCreated, map[string]any{"bolt11": bolt11, "payment_hash": hash})
	case "/v1/listinvoices":
		hash, _ := body["payment_hash"].(string)
		if inv, ok := f.invoices[hash]; ok {
			write(http.StatusOK, map[string]any{"invoices": []any{invoiceJSON(inv)}})
		} else {
			write(http.StatusOK, map[string]any{"invoices": []any{}})
		}
	case "/v1/waitinvoice":
		label, _ := body["label"].(string)
		if inv, ok := f.invoices[label]; ok {
			write(http.StatusOK, invoiceJSON(inv))
		} else {
			write(http.StatusNotFound, map[string]any{"code": -1, "message": "label not found"})
		}
	default:
		write(http.StatusNotFound, map[string]any{"code": -1, "message": "unknown method"})
	}
}

func TestD23CLNInvoiceAmountWraps(t *testing.T) {
	fake := &d23FakeCLN{invoices: map[string]d23Invoice{}}
	srv := httptest.NewServer(fake)
	defer srv.Close()
	clnClient, err := lightning.SetupCLNClient(lightning.CLNConfig{RestURL: srv.URL, Rune: "rune"})
	if err != nil {
		t.Fatal(err)
	}
	m, err := LoadMint(Config{MintPath: t.TempDir(), LightningClient: clnClient, LogLevel: Disable})
	if err != nil {
		t.Fatal(err)
	}
	defer m.Shutdown()

	const amount uint64 = 18446744073710552 // (2^64 + 1000384) / 1000
	quote, err := m.RequestMintQuote(nut04.PostMintQuoteBolt11Request{Amount: amount, Unit: cashu.Sat.String()})
	if err != nil {
		t.Logf("mint quote for %d sat refused: %v", amount, err)
		return
	}
	time.Sleep(150 * time.Millisecond)
	keyset := m.GetActiveKeyset()
	split := cashu.AmountSplit(amount)
	bms := make(cashu.BlindedMessages, len(split))
	for i, amt := range split {
		r, _ := secp256k1.GeneratePrivateKey()
		sb := make([]byte, 32)
		rand.Read(sb)
		B_, _, err := crypto.BlindMessage(hex.EncodeToString(sb), r)
		if err != nil {
			t.Fatal(err)
		}
		bms[i] = cashu.NewBlindedMessage(keyset.Id, amt, B_)
	}
	sigs, err := m.MintTokens(nut04.PostMintBolt11Request{Quote: quote.Id, Outputs: bms})
	if err != nil {
		t.Logf("mint refused: %v", err)
		return
	}
	t.Fatalf("INFLATION: %d sat signed for a quote whose invoice asked for %d msat (%d sat paid over Lightning)", sigs.Amount(), fake.paidMsat, fake.paidMsat/1000)
}
