//go:build kfdemo

// D14 - two concurrent MintTokens requests for the same PAID quote.
//
// MintTokens reads the quote state (GetMintQuoteState -> GetMintQuote) and,
// if it is PAID, writes PENDING with an unconditional
// "UPDATE mint_quotes SET state = ? WHERE id = ?". There is no lock and no
// compare-and-set, so two requests can both read PAID before either writes
// PENDING.
//
// Scenario: a client paid ONE 21 sat quote and sends two mint requests with
// different outputs at the same time. The interleaving is forced with a
// blocking storage wrapper: request A is held right before its
// UpdateMintQuoteState(PENDING) (i.e. after it has read PAID) until request B
// has read PAID as well; then both continue.
//
// Bad outcome asserted: BOTH requests return valid signatures - 42 sat of
// ecash for one 21 sat invoice. Both sets of proofs are then spent in swaps to
// show that the mint honours them.
//
//	go test -tags kfdemo -vet=off -count=1 -run TestKF_D14 ./mint/
package mint

import (
	"sync"
	"testing"
	"time"

	"github.com/elnosh/gonuts/cashu"
	"github.com/elnosh/gonuts/cashu/nuts/nut04"
)

func TestKF_D14_ConcurrentMintTokensIssueQuoteTwice(t *testing.T) {
	const amount = 21

	m, _ := kfNewMint(t, kfNewNode())
	defer func() { m.Shutdown() }()

	quote := kfPaidQuote(t, m, amount)
	outA := kfNewOutputs(t, amount, m.GetActiveKeyset().Id)
	outB := kfNewOutputs(t, amount, m.GetActiveKeyset().Id)

	// Gate: nobody writes PENDING before two requests have arrived at that
	// write, i.e. before both have read the quote as PAID.
	var arrived sync.WaitGroup
	arrived.Add(2)
	db := kfWrap(m, func(call string) error {
		if call == "UpdateMintQuoteState(PENDING)" {
			arrived.Done()
			arrived.Wait()
		}
		return nil
	})

	type result struct {
		sigs cashu.BlindedSignatures
		err  error
	}
	resA, resB := make(chan result, 1), make(chan result, 1)
	go func() {
		sigs, err := m.MintTokens(nut04.PostMintBolt11Request{Quote: quote.Id, Outputs: outA.msgs})
		resA <- result{sigs, err}
	}()
	go func() {
		sigs, err := m.MintTokens(nut04.PostMintBolt11Request{Quote: quote.Id, Outputs: outB.msgs})
		resB <- result{sigs, err}
	}()

	var a, b result
	for i := 0; i < 2; i++ {
		select {
		case a = <-resA:
		case b = <-resB:
		case <-time.After(10 * time.Second):
			t.Fatalf("requests did not finish; storage calls so far: %v", db.Trace())
		}
	}
	kfUnwrap(m)
	t.Logf("interleaved storage calls of the two requests: %v", db.Trace())
	t.Logf("request A: %d sat err=%v; request B: %d sat err=%v", a.sigs.Amount(), a.err, b.sigs.Amount(), b.err)

	if a.err != nil || b.err != nil {
		t.Fatalf("expected both requests to be signed (defect), got errA=%v errB=%v", a.err, b.err)
	}
	if a.sigs.Amount() != amount || b.sigs.Amount() != amount {
		t.Fatalf("expected %d sat from each request, got %d and %d", amount, a.sigs.Amount(), b.sigs.Amount())
	}

	// both sets of proofs are honoured by the mint
	proofsA := kfUnblind(t, m, outA, outA.msgs, a.sigs)
	proofsB := kfUnblind(t, m, outB, outB.msgs, b.sigs)
	if _, err := kfTrySwap(t, m, proofsA); err != nil {
		t.Fatalf("proofs of request A not accepted: %v", err)
	}
	if _, err := kfTrySwap(t, m, proofsB); err != nil {
		t.Fatalf("proofs of request B not accepted: %v", err)
	}
	q, _ := m.GetMintQuoteState(quote.Id)
	t.Logf("DEFECT DEMONSTRATED: one %d sat quote (state now %v) was issued twice: %d sat of valid ecash",
		amount, q.State, proofsA.Amount()+proofsB.Amount())
}
