//go:build kfdemo

// D15e - MintTokens writes the quote ISSUED (UpdateMintQuoteState) before it
// stores the signatures (SaveBlindSignatures); two separate storage calls.
//
// Scenario: the client paid the invoice of a 21 sat mint quote and calls
// MintTokens. The mint signs, writes ISSUED and dies right before
// SaveBlindSignatures (so no response reaches the client). The mint is
// restarted on the same directory; the client retries and, failing that,
// tries NUT-09 restore.
//
// Bad outcome asserted: the quote is ISSUED, the retry is answered with "quote
// already issued", and restore finds no signature: the client paid 21 sat and
// can never get ecash for it.
//
// The second sub-test records what happens when SaveBlindSignatures merely
// returns an ERROR (no crash): then the deferred revert in MintTokens writes the
// quote back to PAID and a retry succeeds - i.e. for D15e only the "dying"
// variant manifests, the plain single-storage-error variant is recovered.
//
//	go test -tags kfdemo -vet=off -count=1 -run TestKF_D15e ./mint/
package mint

import (
	"testing"

	"github.com/elnosh/gonuts/cashu"
	"github.com/elnosh/gonuts/cashu/nuts/nut04"
)

func TestKF_D15e_MintIssuedWithoutStoredSignatures(t *testing.T) {
	const amount = 21

	t.Run("process dies between ISSUED and SaveBlindSignatures", func(t *testing.T) {
		m, config := kfNewMint(t, kfNewNode())
		defer func() { m.Shutdown() }()

		quote := kfPaidQuote(t, m, amount)
		out := kfNewOutputs(t, amount, m.GetActiveKeyset().Id)
		req := nut04.PostMintBolt11Request{Quote: quote.Id, Outputs: out.msgs}

		db := kfWrap(m, kfFaultAt("SaveBlindSignatures", 0, kfDie))
		died := kfRun(func() { m.MintTokens(req) })
		t.Logf("storage calls of the interrupted MintTokens: %v", db.Trace())
		if !died {
			t.Fatal("crash was not triggered")
		}

		m = kfRestart(t, m, config)

		q, err := m.GetMintQuoteState(quote.Id)
		if err != nil {
			t.Fatal(err)
		}
		if q.State != nut04.Issued {
			t.Fatalf("expected quote to be ISSUED after the restart, got %v", q.State)
		}
		_, retryErr := m.MintTokens(req)
		if !kfIsErr(retryErr, cashu.MintQuoteAlreadyIssued) {
			t.Fatalf("expected retry to be answered 'quote already issued', got: %v", retryErr)
		}
		_, restored, err := m.RestoreSignatures(out.msgs)
		if err != nil {
			t.Fatal(err)
		}
		if len(restored) != 0 {
			t.Fatalf("expected nothing to restore, got %d signatures", len(restored))
		}
		// fresh outputs do not help either
		_, err = m.MintTokens(nut04.PostMintBolt11Request{Quote: quote.Id,
			Outputs: kfNewOutputs(t, amount, m.GetActiveKeyset().Id).msgs})
		if !kfIsErr(err, cashu.MintQuoteAlreadyIssued) {
			t.Fatalf("expected 'quote already issued' for fresh outputs, got: %v", err)
		}
		issued, _ := m.IssuedEcash()
		t.Logf("DEFECT DEMONSTRATED: paid %d sat quote is %v, retry: %q, restore finds %d signatures, issued ecash per keyset: %v",
			amount, q.State, retryErr, len(restored), issued)
	})

	t.Run("control: a mere storage error at SaveBlindSignatures is reverted to PAID", func(t *testing.T) {
		m, config := kfNewMint(t, kfNewNode())
		defer func() { m.Shutdown() }()

		quote := kfPaidQuote(t, m, amount)
		out := kfNewOutputs(t, amount, m.GetActiveKeyset().Id)
		req := nut04.PostMintBolt11Request{Quote: quote.Id, Outputs: out.msgs}

		db := kfWrap(m, kfFaultAt("SaveBlindSignatures", 0, kfStorageError))
		_, mintErr := m.MintTokens(req)
		t.Logf("storage calls: %v", db.Trace())
		if mintErr == nil {
			t.Fatal("fault was not triggered")
		}
		m = kfRestart(t, m, config)
		q, _ := m.GetMintQuoteState(quote.Id)
		sigs, retryErr := m.MintTokens(req)
		t.Logf("NOT A DEFECT in this variant: after the storage error the quote is %v and the retry returns %d sat (err=%v)",
			q.State, sigs.Amount(), retryErr)
		if q.State != nut04.Paid || retryErr != nil || sigs.Amount() != amount {
			t.Fatalf("expected the error variant to be recovered by the revert to PAID")
		}
	})
}
