//go:build kfdemo

// D15a - MeltTokens inserts the inputs into the pending table
// (AddPendingProofs) and then, with a second storage call, sets the melt quote
// PENDING (UpdateMeltQuote).
//
// Scenario: a client melts 21 sat to pay an external invoice. After
// AddPendingProofs, either the process dies before UpdateMeltQuote(PENDING) or
// that call returns a storage error (MeltTokens returns the error; nothing was
// paid). The mint is restarted on the same directory.
//
// Bad outcome asserted: the melt quote is UNPAID, the Lightning node never saw
// a payment, yet the inputs are PENDING and no operation releases them:
//   - retrying the melt: "proof is pending"
//   - swapping the inputs: "proof is pending"
//   - GetMeltQuoteState (only acts on PENDING quotes): quote stays UNPAID,
//     inputs stay pending
//   - ProofsStateCheck (which calls GetMeltQuoteState for the quote): PENDING
//
// The client's 21 sat are locked forever although nothing was paid.
//
//	go test -tags kfdemo -vet=off -count=1 -run TestKF_D15a ./mint/
package mint

import (
	"context"
	"testing"

	"github.com/elnosh/gonuts/cashu"
	"github.com/elnosh/gonuts/cashu/nuts/nut05"
	"github.com/elnosh/gonuts/cashu/nuts/nut07"
)

func TestKF_D15a_MeltInputsPendingUnderUnpaidQuote(t *testing.T) {
	const amount = 21
	ctx := context.Background()

	for _, mode := range []kfMode{kfDie, kfStorageError} {
		t.Run(mode.String()+" UpdateMeltQuote(PENDING)", func(t *testing.T) {
			node := kfNewNode()
			m, config := kfNewMint(t, node)
			defer func() { m.Shutdown() }()

			inputs := kfFund(t, m, amount)
			meltQuote, paymentHash := kfExternalMeltQuote(t, m, amount)
			req := nut05.PostMeltBolt11Request{Quote: meltQuote.Id, Inputs: inputs}

			db := kfWrap(m, kfFaultAt("UpdateMeltQuote(PENDING)", 0, mode))
			var meltErr error
			died := kfRun(func() { _, meltErr = m.MeltTokens(ctx, req) })
			t.Logf("storage calls of the interrupted MeltTokens: %v", db.Trace())
			t.Logf("melt: died=%v err=%v", died, meltErr)
			if !died && meltErr == nil {
				t.Fatal("fault was not triggered")
			}

			m = kfRestart(t, m, config)

			// nothing was paid
			for _, p := range node.Invoices {
				if p.PaymentHash == paymentHash {
					t.Fatalf("the node should never have seen a payment for this invoice")
				}
			}

			for round := 0; round < 2; round++ {
				q, err := m.GetMeltQuoteState(ctx, meltQuote.Id)
				if err != nil {
					t.Fatal(err)
				}
				if q.State != nut05.Unpaid {
					t.Fatalf("expected melt quote UNPAID, got %v", q.State)
				}
				states, err := m.ProofsStateCheck(kfYs(t, inputs))
				if err != nil {
					t.Fatal(err)
				}
				for _, s := range states {
					if s.State != nut07.Pending {
						t.Fatalf("expected input %v to be PENDING, got %v", s.Y, s.State)
					}
				}
				if _, err := m.MeltTokens(ctx, req); !kfIsErr(err, cashu.ProofPendingErr) {
					t.Fatalf("melt retry: expected 'proof is pending', got: %v", err)
				}
				if _, err := kfTrySwap(t, m, inputs); !kfIsErr(err, cashu.ProofPendingErr) {
					t.Fatalf("swap: expected 'proof is pending', got: %v", err)
				}
				// a melt with a different quote does not help either
				other, _ := kfExternalMeltQuote(t, m, amount)
				if _, err := m.MeltTokens(ctx, nut05.PostMeltBolt11Request{Quote: other.Id, Inputs: inputs}); !kfIsErr(err, cashu.ProofPendingErr) {
					t.Fatalf("melt with another quote: expected 'proof is pending', got: %v", err)
				}
				m = kfRestart(t, m, config)
			}

			t.Logf("DEFECT DEMONSTRATED (%v UpdateMeltQuote(PENDING)): nothing was paid, melt quote is UNPAID, "+
				"but the %d sat of inputs are PENDING and melt retry / swap / quote check / state check never release them",
				mode, amount)
		})
	}
}
