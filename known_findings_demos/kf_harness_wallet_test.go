//go:build kfdemo

// Shared harness for the wallet TestKF_* witness tests (package wallet,
// in-package so that keyset counters can be read from the wallet's db).
//
//	go test -tags kfdemo -vet=off -count=1 -run TestKF ./wallet/
//
// A real gonuts mint (sqlite storage, lightning.FakeBackend) is started
// in-process on a free local port. The wallets talk to it through a small
// recording HTTP proxy (httptest.Server), which keeps every request body and
// lets a test rewrite selected responses (used by D17 to add NUT-08 change
// signatures, which the in-repo mint never returns).
package wallet

import (
	"bytes"
	"fmt"
	"io"
	"net"
	"net/http"
	"net/http/httptest"
	"sync"
	"testing"
	"time"

	"github.com/elnosh/gonuts/mint"
	"github.com/elnosh/gonuts/mint/lightning"
)

type kfwReq struct {
	Method string
	Path   string
	Body   []byte
}

// kfwNode is the FakeBackend with a configurable fee reserve.
type kfwNode struct {
	*lightning.FakeBackend
	Reserve uint64
}

func (n *kfwNode) FeeReserve(amount uint64) uint64 { return n.Reserve }

type kfwMint struct {
	M    *mint.Mint
	Node *kfwNode
	URL  string // what the wallets use (the recording proxy)
	Path string // mint data directory

	mu   sync.Mutex
	reqs []kfwReq
	// Rewrite, if set, may replace the body of a 200 response.
	Rewrite func(req kfwReq, body []byte) []byte
}

func (km *kfwMint) Requests(method, path string) []kfwReq {
	km.mu.Lock()
	defer km.mu.Unlock()
	var out []kfwReq
	for _, r := range km.reqs {
		if r.Method == method && r.Path == path {
			out = append(out, r)
		}
	}
	return out
}

func kfwFreePort(t *testing.T) int {
	t.Helper()
	l, err := net.Listen("tcp", "127.0.0.1:0")
	if err != nil {
		t.Fatal(err)
	}
	defer l.Close()
	return l.Addr().(*net.TCPAddr).Port
}

// kfwStartMint starts a mint. prepare (optional) runs on the data directory
// before LoadMint.
func kfwStartMint(t *testing.T, prepare func(path string)) *kfwMint {
	t.Helper()
	path := t.TempDir()
	if prepare != nil {
		prepare(path)
	}
	node := &kfwNode{FakeBackend: &lightning.FakeBackend{}}
	m, err := mint.LoadMint(mint.Config{MintPath: path, LightningClient: node, LogLevel: mint.Disable})
	if err != nil {
		t.Fatalf("load mint: %v", err)
	}
	port := kfwFreePort(t)
	server := mint.SetupMintServer(m, mint.ServerConfig{Port: port})
	go server.Start()
	t.Cleanup(func() { server.Shutdown() })

	backend := fmt.Sprintf("http://127.0.0.1:%d", port)
	for i := 0; ; i++ {
		c, err := net.DialTimeout("tcp", fmt.Sprintf("127.0.0.1:%d", port), time.Second)
		if err == nil {
			c.Close()
			break
		}
		if i > 200 {
			t.Fatalf("mint server did not come up: %v", err)
		}
		time.Sleep(10 * time.Millisecond)
	}

	km := &kfwMint{M: m, Node: node, Path: path}
	proxy := httptest.NewServer(http.HandlerFunc(func(rw http.ResponseWriter, req *http.Request) {
		body, _ := io.ReadAll(req.Body)
		rec := kfwReq{Method: req.Method, Path: req.URL.Path, Body: body}
		km.mu.Lock()
		km.reqs = append(km.reqs, rec)
		rewrite := km.Rewrite
		km.mu.Unlock()

		fwd, err := http.NewRequest(req.Method, backend+req.URL.RequestURI(), bytes.NewReader(body))
		if err != nil {
			http.Error(rw, err.Error(), http.StatusBadGateway)
			return
		}
		fwd.Header = req.Header.Clone()
		resp, err := http.DefaultClient.Do(fwd)
		if err != nil {
			http.Error(rw, err.Error(), http.StatusBadGateway)
			return
		}
		defer resp.Body.Close()
		respBody, _ := io.ReadAll(resp.Body)
		if rewrite != nil && resp.StatusCode == http.StatusOK {
			respBody = rewrite(rec, respBody)
		}
		rw.Header().Set("Content-Type", "application/json")
		rw.WriteHeader(resp.StatusCode)
		rw.Write(respBody)
	}))
	t.Cleanup(proxy.Close)
	km.URL = proxy.URL
	return km
}

func kfwNewWallet(t *testing.T, defaultMint string) *Wallet {
	t.Helper()
	w, err := LoadWallet(Config{WalletPath: t.TempDir(), CurrentMintURL: defaultMint})
	if err != nil {
		t.Fatalf("load wallet: %v", err)
	}
	t.Cleanup(func() { w.Shutdown() })
	return w
}

// kfwFund mints amount at mintURL (the FakeBackend settles invoices at once).
func kfwFund(t *testing.T, w *Wallet, mintURL string, amount uint64) {
	t.Helper()
	res, err := w.RequestMint(amount, mintURL)
	if err != nil {
		t.Fatalf("request mint: %v", err)
	}
	// let the mint's invoice watcher finish with the quote first
	time.Sleep(50 * time.Millisecond)
	if _, err := w.MintTokens(res.Quote); err != nil {
		t.Fatalf("mint tokens: %v", err)
	}
}
