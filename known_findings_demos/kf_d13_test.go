//go:build kfdemo

// D13 - a swap racing a melt on the same proofs.
//
// Both Swap and MeltTokens call verifyProofs, which only READS the pending and
// the spent table. Melt then inserts the inputs into pending_proofs, swap
// inserts them into proofs: different tables, so the primary keys do not
// collide, and there is no lock around check + insert.
//
// Scenario 1: a client holds 21 sat and sends, at the same time, a melt
// (external 21 sat invoice) and a swap with the SAME proofs. Forced
// interleaving (blocking storage wrapper): the melt has passed verifyProofs
// and is held right before AddPendingProofs; the swap runs (verifyProofs sees
// both tables empty), marks the proofs spent and returns signatures; the melt
// continues: AddPendingProofs succeeds (other table), the node pays the
// invoice.
//
// Scenario 2 (the order given in the claim): the swap has passed verifyProofs
// and is held before its next storage call; the melt runs, puts the proofs
// into pending_proofs and hands the payment to the node (payment in flight,
// melt answers PENDING); the swap continues: SaveProofs into proofs succeeds,
// signatures are returned; the payment then settles.
//
// Bad outcome asserted (both): the node paid the 21 sat invoice on behalf of
// the client AND the client holds 21 sat of fresh, valid ecash from the swap:
// one set of proofs redeemed twice.
//
//	go test -tags kfdemo -vet=off -count=1 -run TestKF_D13 ./mint/
package mint

import (
	"context"
	"testing"
	"time"

	"github.com/elnosh/gonuts/cashu"
	"github.com/elnosh/gonuts/cashu/nuts/nut05"
	"github.com/elnosh/gonuts/mint/lightning"
	"github.com/elnosh/gonuts/mint/storage"
)

func TestKF_D13_SwapRacingMeltRedeemsProofTwice(t *testing.T) {
	const amount = 21
	ctx := context.Background()

	type meltResult struct {
		quote storage.MeltQuote
		err   error
	}

	t.Run("melt held before AddPendingProofs, swap completes, melt pays", func(t *testing.T) {
		node := kfNewNode()
		m, _ := kfNewMint(t, node)
		defer func() { m.Shutdown() }()

		inputs := kfFund(t, m, amount)
		meltQuote, paymentHash := kfExternalMeltQuote(t, m, amount)

		meltVerified := make(chan struct{})
		swapDone := make(chan struct{})
		db := kfWrap(m, func(call string) error {
			if call == "AddPendingProofs" { // only the melt makes this call
				close(meltVerified)
				<-swapDone
			}
			return nil
		})

		meltRes := make(chan meltResult, 1)
		go func() {
			q, err := m.MeltTokens(ctx, nut05.PostMeltBolt11Request{Quote: meltQuote.Id, Inputs: inputs})
			meltRes <- meltResult{q, err}
		}()

		select {
		case <-meltVerified:
		case <-time.After(10 * time.Second):
			t.Fatal("melt did not reach AddPendingProofs")
		}
		// the melt has verified the proofs; now the swap with the same proofs
		swapOut := kfNewOutputs(t, amount, m.GetActiveKeyset().Id)
		swapSigs, swapErr := m.Swap(inputs, swapOut.msgs)
		close(swapDone)

		var mr meltResult
		select {
		case mr = <-meltRes:
		case <-time.After(10 * time.Second):
			t.Fatal("melt did not finish")
		}
		kfUnwrap(m)
		t.Logf("interleaved storage calls: %v", db.Trace())
		t.Logf("swap: %d sat err=%v", swapSigs.Amount(), swapErr)
		t.Logf("melt response: err=%v", mr.err)

		if swapErr != nil {
			t.Fatalf("expected the swap to succeed (defect), got: %v", swapErr)
		}
		if !node.kfPaid(paymentHash) {
			t.Fatalf("expected the node to have paid the invoice (defect)")
		}
		fresh := kfUnblind(t, m, swapOut, swapOut.msgs, swapSigs)
		if _, err := kfTrySwap(t, m, fresh); err != nil {
			t.Fatalf("ecash from the swap is not valid: %v", err)
		}
		t.Logf("DEFECT DEMONSTRATED: %d sat of proofs paid a %d sat invoice on the node AND were swapped for %d sat of fresh valid ecash "+
			"(the melt request itself was answered, after the payment, with: err=%v)", amount, amount, fresh.Amount(), mr.err)
	})

	t.Run("swap held after verifyProofs, melt goes pending, swap completes, payment settles", func(t *testing.T) {
		node := kfNewNode()
		node.PaymentDelay = 3600 // outgoing payments stay in flight
		m, _ := kfNewMint(t, node)
		defer func() { m.Shutdown() }()

		inputs := kfFund(t, m, amount)
		meltQuote, paymentHash := kfExternalMeltQuote(t, m, amount)

		swapVerified := make(chan struct{})
		meltDone := make(chan struct{})
		db := kfWrap(m, func(call string) error {
			if call == "GetBlindSignatures" { // only the swap makes this call, right after verifyProofs
				close(swapVerified)
				<-meltDone
			}
			return nil
		})

		type swapResult struct {
			sigs cashu.BlindedSignatures
			err  error
		}
		swapOut := kfNewOutputs(t, amount, m.GetActiveKeyset().Id)
		swapRes := make(chan swapResult, 1)
		go func() {
			sigs, err := m.Swap(inputs, swapOut.msgs)
			swapRes <- swapResult{sigs, err}
		}()
		select {
		case <-swapVerified:
		case <-time.After(10 * time.Second):
			t.Fatal("swap did not pass verifyProofs")
		}

		mq, meltErr := m.MeltTokens(ctx, nut05.PostMeltBolt11Request{Quote: meltQuote.Id, Inputs: inputs})
		close(meltDone)
		if meltErr != nil || mq.State != nut05.Pending {
			t.Fatalf("expected the melt to be accepted and PENDING, got state=%v err=%v", mq.State, meltErr)
		}

		var sr swapResult
		select {
		case sr = <-swapRes:
		case <-time.After(10 * time.Second):
			t.Fatal("swap did not finish")
		}
		kfUnwrap(m)
		t.Logf("interleaved storage calls: %v", db.Trace())
		t.Logf("melt: state=%v err=%v; swap: %d sat err=%v", mq.State, meltErr, sr.sigs.Amount(), sr.err)
		if sr.err != nil {
			t.Fatalf("expected the swap to succeed (defect), got: %v", sr.err)
		}

		// the in-flight payment settles
		node.SetInvoiceStatus(paymentHash, lightning.Succeeded)
		q, checkErr := m.GetMeltQuoteState(ctx, meltQuote.Id)
		_ = q
		t.Logf("melt quote check after the payment settled: err=%v", checkErr)
		if !node.kfPaid(paymentHash) {
			t.Fatal("expected the node to have paid the invoice")
		}

		fresh := kfUnblind(t, m, swapOut, swapOut.msgs, sr.sigs)
		if _, err := kfTrySwap(t, m, fresh); err != nil {
			t.Fatalf("ecash from the swap is not valid: %v", err)
		}
		t.Logf("DEFECT DEMONSTRATED: %d sat of proofs were accepted by a melt (invoice paid by the node) AND swapped for %d sat of fresh valid ecash",
			amount, fresh.Amount())
	})
}
