//go:build kfdemo

// Shared harness for the TestKF_* witness tests (package mint, in-package so
// that the mint's storage.MintDB can be wrapped).
//
// Run all of them from the repository root with:
//
//	go test -tags kfdemo -vet=off -count=1 -run TestKF ./mint/
//
// The harness offers:
//   - kfDB: a wrapper around the real sqlite storage.MintDB that calls a hook
//     before every intercepted storage call. The hook can return an error
//     (injected storage fault), panic with kfCrash (the process "dies" right
//     before that storage call; the test recovers, closes the db and runs
//     LoadMint again on the same directory = restart) or block on a channel
//     (to force an interleaving of two requests at storage-call granularity).
//   - kfNode: a lightning.Client around lightning.FakeBackend whose invoices
//     can be created unpaid and whose invoice subscription only fires when the
//     test says so.
//   - client side helpers: blinded messages, unblinding, funding, Ys.
package mint

import (
	"context"
	"crypto/rand"
	"encoding/hex"
	"fmt"
	"sync"
	"testing"
	"time"

	"github.com/decred/dcrd/dcrec/secp256k1/v4"
	"github.com/elnosh/gonuts/cashu"
	"github.com/elnosh/gonuts/cashu/nuts/nut04"
	"github.com/elnosh/gonuts/cashu/nuts/nut05"
	"github.com/elnosh/gonuts/crypto"
	"github.com/elnosh/gonuts/mint/lightning"
	"github.com/elnosh/gonuts/mint/storage"
)

// ---- storage wrapper ---------------------------------------------------------

// kfCrash is the panic value used to simulate the process dying right before
// the storage call named in at.
type kfCrash struct{ at string }

type kfDB struct {
	storage.MintDB
	mu     sync.Mutex
	trace  []string
	before func(call string) error
}

func (d *kfDB) hit(call string) error {
	d.mu.Lock()
	d.trace = append(d.trace, call)
	hook := d.before
	d.mu.Unlock()
	if hook != nil {
		return hook(call)
	}
	return nil
}

func (d *kfDB) Trace() []string {
	d.mu.Lock()
	defer d.mu.Unlock()
	return append([]string(nil), d.trace...)
}

func (d *kfDB) SaveKeyset(k storage.DBKeyset) error {
	if err := d.hit("SaveKeyset"); err != nil {
		return err
	}
	return d.MintDB.SaveKeyset(k)
}

func (d *kfDB) UpdateKeysetActive(id string, active bool) error {
	if err := d.hit(fmt.Sprintf("UpdateKeysetActive(%v)", active)); err != nil {
		return err
	}
	return d.MintDB.UpdateKeysetActive(id, active)
}

func (d *kfDB) SaveProofs(proofs cashu.Proofs) error {
	if err := d.hit("SaveProofs"); err != nil {
		return err
	}
	return d.MintDB.SaveProofs(proofs)
}

func (d *kfDB) GetProofsUsed(Ys []string) ([]storage.DBProof, error) {
	if err := d.hit("GetProofsUsed"); err != nil {
		return nil, err
	}
	return d.MintDB.GetProofsUsed(Ys)
}

func (d *kfDB) AddPendingProofs(proofs cashu.Proofs, quoteId string) error {
	if err := d.hit("AddPendingProofs"); err != nil {
		return err
	}
	return d.MintDB.AddPendingProofs(proofs, quoteId)
}

func (d *kfDB) GetPendingProofs(Ys []string) ([]storage.DBProof, error) {
	if err := d.hit("GetPendingProofs"); err != nil {
		return nil, err
	}
	return d.MintDB.GetPendingProofs(Ys)
}

func (d *kfDB) GetPendingProofsByQuote(quoteId string) ([]storage.DBProof, error) {
	if err := d.hit("GetPendingProofsByQuote"); err != nil {
		return nil, err
	}
	return d.MintDB.GetPendingProofsByQuote(quoteId)
}

func (d *kfDB) RemovePendingProofs(Ys []string) error {
	if err := d.hit("RemovePendingProofs"); err != nil {
		return err
	}
	return d.MintDB.RemovePendingProofs(Ys)
}

func (d *kfDB) GetMintQuote(id string) (storage.MintQuote, error) {
	if err := d.hit("GetMintQuote"); err != nil {
		return storage.MintQuote{}, err
	}
	return d.MintDB.GetMintQuote(id)
}

func (d *kfDB) GetMintQuoteByPaymentHash(hash string) (storage.MintQuote, error) {
	if err := d.hit("GetMintQuoteByPaymentHash"); err != nil {
		return storage.MintQuote{}, err
	}
	return d.MintDB.GetMintQuoteByPaymentHash(hash)
}

func (d *kfDB) UpdateMintQuoteState(id string, state nut04.State) error {
	if err := d.hit("UpdateMintQuoteState(" + state.String() + ")"); err != nil {
		return err
	}
	return d.MintDB.UpdateMintQuoteState(id, state)
}

func (d *kfDB) GetMeltQuote(id string) (storage.MeltQuote, error) {
	if err := d.hit("GetMeltQuote"); err != nil {
		return storage.MeltQuote{}, err
	}
	return d.MintDB.GetMeltQuote(id)
}

func (d *kfDB) UpdateMeltQuote(id, preimage string, state nut05.State) error {
	if err := d.hit("UpdateMeltQuote(" + state.String() + ")"); err != nil {
		return err
	}
	return d.MintDB.UpdateMeltQuote(id, preimage, state)
}

func (d *kfDB) SaveBlindSignatures(B_s []string, sigs cashu.BlindedSignatures) error {
	if err := d.hit("SaveBlindSignatures"); err != nil {
		return err
	}
	return d.MintDB.SaveBlindSignatures(B_s, sigs)
}

func (d *kfDB) GetBlindSignatures(B_s []string) (cashu.BlindedSignatures, error) {
	if err := d.hit("GetBlindSignatures"); err != nil {
		return nil, err
	}
	return d.MintDB.GetBlindSignatures(B_s)
}

// kfWrap slips a kfDB around the mint's storage; kfUnwrap removes it again.
// (Close is passed through to the real db, so Shutdown works either way.)
func kfWrap(m *Mint, before func(call string) error) *kfDB {
	d := &kfDB{MintDB: m.db, before: before}
	m.db = d
	return d
}

func kfUnwrap(m *Mint) {
	if d, ok := m.db.(*kfDB); ok {
		m.db = d.MintDB
	}
}

// fault modes
type kfMode int

const (
	kfStorageError kfMode = iota // the storage call returns an error
	kfDie                        // the process dies right before the storage call
)

func (k kfMode) String() string {
	if k == kfDie {
		return "process dies before"
	}
	return "storage error at"
}

// kfFaultAt returns a hook that faults at the nth (0-based) occurrence of call.
func kfFaultAt(call string, nth int, mode kfMode) func(string) error {
	var mu sync.Mutex
	seen := 0
	return func(c string) error {
		if c != call {
			return nil
		}
		mu.Lock()
		idx := seen
		seen++
		mu.Unlock()
		if idx != nth {
			return nil
		}
		if mode == kfDie {
			panic(kfCrash{at: c})
		}
		return fmt.Errorf("injected storage error at %s", c)
	}
}

// kfRun runs op and reports whether the mint "died" (a kfCrash panic) in it.
func kfRun(op func()) (died bool) {
	defer func() {
		if r := recover(); r != nil {
			if _, ok := r.(kfCrash); !ok {
				panic(r)
			}
			died = true
		}
	}()
	op()
	return false
}

// ---- mint life cycle -----------------------------------------------------------

func kfNewMint(t *testing.T, ln lightning.Client) (*Mint, Config) {
	t.Helper()
	config := Config{
		MintPath:        t.TempDir(),
		LightningClient: ln,
		LogLevel:        Disable,
	}
	m, err := LoadMint(config)
	if err != nil {
		t.Fatalf("load mint: %v", err)
	}
	return m, config
}

// kfRestart closes the storage and loads the mint again from the same
// directory (same Lightning node).
func kfRestart(t *testing.T, m *Mint, config Config) *Mint {
	t.Helper()
	kfUnwrap(m)
	if err := m.Shutdown(); err != nil {
		t.Fatalf("shutdown: %v", err)
	}
	m2, err := LoadMint(config)
	if err != nil {
		t.Fatalf("restart: %v", err)
	}
	return m2
}

// ---- Lightning node ------------------------------------------------------------

// kfNode is the FakeBackend with two extra knobs:
//   - UnpaidInvoices: invoices created by the mint start out unpaid (the
//     FakeBackend settles them at creation).
//   - ManualSub: the invoice subscription does not deliver anything until the
//     test calls Notify(hash) (or the mint's context is cancelled).
type kfNode struct {
	*lightning.FakeBackend
	UnpaidInvoices bool
	ManualSub      bool

	mu     sync.Mutex
	notify map[string]chan struct{}
}

func kfNewNode() *kfNode {
	return &kfNode{FakeBackend: &lightning.FakeBackend{}, notify: make(map[string]chan struct{})}
}

func (n *kfNode) CreateInvoice(amount uint64) (lightning.Invoice, error) {
	inv, err := n.FakeBackend.CreateInvoice(amount)
	if err != nil {
		return inv, err
	}
	if n.UnpaidInvoices {
		n.FakeBackend.SetInvoiceStatus(inv.PaymentHash, lightning.Pending)
		inv.Settled = false
	}
	return inv, nil
}

func (n *kfNode) ch(hash string) chan struct{} {
	n.mu.Lock()
	defer n.mu.Unlock()
	c, ok := n.notify[hash]
	if !ok {
		c = make(chan struct{})
		n.notify[hash] = c
	}
	return c
}

// Notify lets the invoice subscription for hash deliver the current invoice.
func (n *kfNode) Notify(hash string) { close(n.ch(hash)) }

type kfSub struct {
	n    *kfNode
	ctx  context.Context
	hash string
}

func (s *kfSub) Recv() (lightning.Invoice, error) {
	select {
	case <-s.n.ch(s.hash):
		return s.n.FakeBackend.InvoiceStatus(s.hash)
	case <-s.ctx.Done():
		return lightning.Invoice{}, s.ctx.Err()
	}
}

func (n *kfNode) SubscribeInvoice(ctx context.Context, hash string) (lightning.InvoiceSubscriptionClient, error) {
	if !n.ManualSub {
		return n.FakeBackend.SubscribeInvoice(ctx, hash)
	}
	return &kfSub{n: n, ctx: ctx, hash: hash}, nil
}

// OutgoingPaymentStatus: like a real node, answer "not found" for a payment
// hash the node never tried to pay (the FakeBackend returns a generic error,
// which the mint treats as "status unknown").
func (n *kfNode) OutgoingPaymentStatus(ctx context.Context, hash string) (lightning.PaymentStatus, error) {
	for _, p := range n.Invoices {
		if p.PaymentHash == hash {
			return n.FakeBackend.OutgoingPaymentStatus(ctx, hash)
		}
	}
	return lightning.PaymentStatus{PaymentStatus: lightning.Failed}, lightning.OutgoingPaymentNotFound
}

// kfPaid reports whether the node has an outgoing payment / invoice with this
// hash in state Succeeded.
func (n *kfNode) kfPaid(hash string) bool {
	for _, p := range n.Invoices {
		if p.PaymentHash == hash && p.Status == lightning.Succeeded {
			return true
		}
	}
	return false
}

// ---- client side -----------------------------------------------------------------

type kfOutputs struct {
	msgs    cashu.BlindedMessages
	secrets []string
	rs      []*secp256k1.PrivateKey
}

func kfNewOutputs(t *testing.T, amount uint64, keysetId string) kfOutputs {
	t.Helper()
	var out kfOutputs
	for _, amt := range cashu.AmountSplit(amount) {
		r, err := secp256k1.GeneratePrivateKey()
		if err != nil {
			t.Fatal(err)
		}
		var B_ *secp256k1.PublicKey
		var secret string
		for {
			b := make([]byte, 32)
			if _, err := rand.Read(b); err != nil {
				t.Fatal(err)
			}
			secret = hex.EncodeToString(b)
			B_, r, err = crypto.BlindMessage(secret, r)
			if err == nil {
				break
			}
		}
		out.msgs = append(out.msgs, cashu.NewBlindedMessage(keysetId, amt, B_))
		out.secrets = append(out.secrets, secret)
		out.rs = append(out.rs, r)
	}
	return out
}

// kfUnblind turns the signatures for (a subset of) out into proofs.
func kfUnblind(t *testing.T, m *Mint, out kfOutputs, msgs cashu.BlindedMessages, sigs cashu.BlindedSignatures) cashu.Proofs {
	t.Helper()
	proofs := make(cashu.Proofs, 0, len(sigs))
	for i, sig := range sigs {
		idx := -1
		for j := range out.msgs {
			if out.msgs[j].B_ == msgs[i].B_ {
				idx = j
			}
		}
		if idx < 0 {
			t.Fatalf("signature for unknown output %v", msgs[i].B_)
		}
		keyset, err := m.GetKeysetById(sig.Id)
		if err != nil {
			t.Fatal(err)
		}
		Cb, err := hex.DecodeString(sig.C_)
		if err != nil {
			t.Fatal(err)
		}
		C_, err := secp256k1.ParsePubKey(Cb)
		if err != nil {
			t.Fatal(err)
		}
		C := crypto.UnblindSignature(C_, out.rs[idx], keyset.Keys[sig.Amount])
		proofs = append(proofs, cashu.Proof{
			Amount: sig.Amount,
			Id:     sig.Id,
			Secret: out.secrets[idx],
			C:      hex.EncodeToString(C.SerializeCompressed()),
		})
	}
	return proofs
}

// kfPaidQuote requests a mint quote and waits until the mint has it as PAID
// (the FakeBackend settles invoices at once and the mint's background invoice
// watcher writes PAID). When this returns the watcher of this quote is done.
func kfPaidQuote(t *testing.T, m *Mint, amount uint64) storage.MintQuote {
	t.Helper()
	quote, err := m.RequestMintQuote(nut04.PostMintQuoteBolt11Request{Amount: amount, Unit: cashu.Sat.String()})
	if err != nil {
		t.Fatalf("mint quote: %v", err)
	}
	for i := 0; i < 400; i++ {
		q, err := m.db.GetMintQuote(quote.Id)
		if err == nil && q.State == nut04.Paid {
			time.Sleep(10 * time.Millisecond)
			return q
		}
		time.Sleep(5 * time.Millisecond)
	}
	t.Fatalf("mint quote %v did not become PAID", quote.Id)
	return quote
}

// kfFund pays a mint quote and mints amount of ecash.
func kfFund(t *testing.T, m *Mint, amount uint64) cashu.Proofs {
	t.Helper()
	quote := kfPaidQuote(t, m, amount)
	out := kfNewOutputs(t, amount, m.GetActiveKeyset().Id)
	sigs, err := m.MintTokens(nut04.PostMintBolt11Request{Quote: quote.Id, Outputs: out.msgs})
	if err != nil {
		t.Fatalf("mint tokens: %v", err)
	}
	return kfUnblind(t, m, out, out.msgs, sigs)
}

func kfYs(t *testing.T, proofs cashu.Proofs) []string {
	t.Helper()
	Ys := make([]string, len(proofs))
	for i, p := range proofs {
		Y, err := crypto.HashToCurve([]byte(p.Secret))
		if err != nil {
			t.Fatal(err)
		}
		Ys[i] = hex.EncodeToString(Y.SerializeCompressed())
	}
	return Ys
}

// kfExternalMeltQuote creates an invoice of some other Lightning node and a
// melt quote for it.
func kfExternalMeltQuote(t *testing.T, m *Mint, amount uint64) (storage.MeltQuote, string) {
	t.Helper()
	invoice, _, paymentHash, err := lightning.CreateFakeInvoice(amount, false)
	if err != nil {
		t.Fatal(err)
	}
	quote, err := m.RequestMeltQuote(nut05.PostMeltQuoteBolt11Request{Request: invoice, Unit: cashu.Sat.String()})
	if err != nil {
		t.Fatalf("melt quote: %v", err)
	}
	return quote, paymentHash
}

// kfTrySwap tries to swap proofs for fresh ecash of the same amount.
func kfTrySwap(t *testing.T, m *Mint, proofs cashu.Proofs) (cashu.Proofs, error) {
	t.Helper()
	fresh := kfNewOutputs(t, proofs.Amount(), m.GetActiveKeyset().Id)
	sigs, err := m.Swap(proofs, fresh.msgs)
	if err != nil {
		return nil, err
	}
	return kfUnblind(t, m, fresh, fresh.msgs, sigs), nil
}

// kfIsErr compares by message (the mint returns cashu.Error both by value and
// by pointer).
func kfIsErr(err error, want cashu.Error) bool {
	return err != nil && err.Error() == want.Detail
}
