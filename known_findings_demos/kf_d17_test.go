//go:build kfdemo

// D17 - CheckMeltQuoteState bumps the counter of the wrong keyset.
//
// Wallet.Melt derives the NUT-08 blank change outputs on the mint's ACTIVE
// keyset (counterForKeyset(activeKeyset.Id)). If the melt comes back PAID right
// away, Melt increments activeKeyset's counter by the number of change
// signatures. If it comes back PENDING and resolves later, CheckMeltQuoteState
// does the bookkeeping instead - but it increments the counter of
// pendingProofs[0].Id, i.e. of the keyset of the melt's INPUT proofs.
//
// Scenario: the wallet holds 32 sat issued under keyset K1. The mint rotates to
// keyset K2. The wallet melts 10 sat (+4 sat fee reserve): inputs are K1 proofs,
// 2 blank outputs are derived on K2 at counters 0 and 1. The payment is in
// flight (PENDING). It then succeeds, and the quote-state response carries one
// change signature (4 sat, on blank output #0, signed with the mint's real K2
// key). The in-repo mint never returns change, so the response of the real
// mint is completed by the test's HTTP proxy, which holds the mint's seed.
//
// Bad outcome asserted: (1) K1's counter went up by 1 although nothing was
// derived on K1; (2) K2's counter is still 0 although output (K2, 0) has been
// signed by the mint; (3) the wallet's next operation (minting 8 sat) submits a
// blinded message that is byte-identical to blank output (K2, 0), i.e. counter
// and secret reuse.
//
// Run with:
//
//	go test -tags kfdemo -vet=off -count=1 -run TestKF_D17 ./wallet/
package wallet

import (
	"encoding/hex"
	"encoding/json"
	"strings"
	"testing"

	"github.com/btcsuite/btcd/btcutil/hdkeychain"
	"github.com/btcsuite/btcd/chaincfg"
	"github.com/decred/dcrd/dcrec/secp256k1/v4"
	"github.com/elnosh/gonuts/cashu"
	"github.com/elnosh/gonuts/cashu/nuts/nut04"
	"github.com/elnosh/gonuts/cashu/nuts/nut05"
	"github.com/elnosh/gonuts/crypto"
	"github.com/elnosh/gonuts/mint/lightning"
	"github.com/elnosh/gonuts/mint/storage/sqlite"
)

func TestKF_D17_CheckMeltQuoteStateIncrementsInputKeysetCounter(t *testing.T) {
	// give the mint a seed the test knows, so that the proxy can produce
	// genuine change signatures
	seed, err := hdkeychain.GenerateSeed(32)
	if err != nil {
		t.Fatal(err)
	}
	km := kfwStartMint(t, func(path string) {
		db, err := sqlite.InitSQLite(path)
		if err != nil {
			t.Fatal(err)
		}
		if err := db.SaveSeed(seed); err != nil {
			t.Fatal(err)
		}
		db.Close()
	})
	km.Node.Reserve = 4 // fee reserve > 0 so that the wallet sends blank outputs
	master, _ := hdkeychain.NewMaster(seed, &chaincfg.MainNetParams)

	k1 := km.M.GetActiveKeyset().Id
	w := kfwNewWallet(t, km.URL)
	kfwFund(t, w, km.URL, 32)
	k1AfterFund := w.counterForKeyset(k1)

	// the mint rotates its keyset
	rotated, err := km.M.RotateKeyset(0)
	if err != nil {
		t.Fatal(err)
	}
	k2 := rotated.Id
	k2keys, err := crypto.GenerateKeyset(master, 1, 0, true)
	if err != nil || k2keys.Id != k2 {
		t.Fatalf("test setup: could not re-derive the mint's new keyset (%v)", err)
	}

	// melt 10 sat, payment stays in flight
	km.Node.PaymentDelay = 3600
	invoice, _, paymentHash, err := lightning.CreateFakeInvoice(10, false)
	if err != nil {
		t.Fatal(err)
	}
	meltQuote, err := w.RequestMeltQuote(invoice, km.URL)
	if err != nil {
		t.Fatal(err)
	}
	if meltQuote.FeeReserve != 4 {
		t.Fatalf("test setup: expected fee reserve 4, got %d", meltQuote.FeeReserve)
	}
	meltRes, err := w.Melt(meltQuote.Quote)
	if err != nil {
		t.Fatalf("melt: %v", err)
	}
	if meltRes.State != nut05.Pending {
		t.Fatalf("test setup: expected a PENDING melt, got %v", meltRes.State)
	}

	// what the wallet sent
	meltReqs := km.Requests("POST", "/v1/melt/bolt11")
	if len(meltReqs) != 1 {
		t.Fatalf("expected 1 melt request, got %d", len(meltReqs))
	}
	var meltReq nut05.PostMeltBolt11Request
	if err := json.Unmarshal(meltReqs[0].Body, &meltReq); err != nil {
		t.Fatal(err)
	}
	for _, in := range meltReq.Inputs {
		if in.Id != k1 {
			t.Fatalf("test setup: expected all melt inputs on the old keyset %s, got %s", k1, in.Id)
		}
	}
	if len(meltReq.Outputs) != 2 {
		t.Fatalf("test setup: expected 2 blank outputs, got %d", len(meltReq.Outputs))
	}
	for _, out := range meltReq.Outputs {
		if out.Id != k2 {
			t.Fatalf("test setup: expected blank outputs on the active keyset %s, got %s", k2, out.Id)
		}
	}
	blank0 := meltReq.Outputs[0]
	pending := w.db.GetPendingProofsByQuoteId(meltQuote.Quote)
	if len(pending) == 0 || pending[0].Id != k1 {
		t.Fatalf("test setup: expected pending proofs on keyset %s", k1)
	}

	k1Before, k2Before := w.counterForKeyset(k1), w.counterForKeyset(k2)
	t.Logf("after Melt (PENDING): inputs on K1=%s, %d blank outputs on K2=%s; counters K1=%d K2=%d",
		k1, len(meltReq.Outputs), k2, k1Before, k2Before)
	if k1Before != k1AfterFund {
		// incidental observation, not part of D17: when the wallet notices the
		// rotation, getActiveKeyset saves its stale in-memory copy of the old
		// keyset (Counter 0) over the stored one.
		t.Logf("(incidental: K1's counter was %d after funding and reads %d after the wallet noticed the keyset rotation)",
			k1AfterFund, k1Before)
	}

	// the payment succeeds; the quote-state response of the mint is completed
	// with the change: 4 sat on blank output #0
	km.Node.SetInvoiceStatus(paymentHash, lightning.Succeeded)
	km.mu.Lock()
	km.Rewrite = func(req kfwReq, body []byte) []byte {
		if req.Method != "GET" || !strings.HasPrefix(req.Path, "/v1/melt/quote/bolt11/") {
			return body
		}
		var res nut05.PostMeltQuoteBolt11Response
		if err := json.Unmarshal(body, &res); err != nil || res.State != nut05.Paid {
			return body
		}
		Bb, _ := hex.DecodeString(blank0.B_)
		B_, _ := secp256k1.ParsePubKey(Bb)
		k := k2keys.Keys[4].PrivateKey
		C_ := crypto.SignBlindedMessage(B_, k)
		e, s := crypto.GenerateDLEQ(k, B_, C_)
		res.Change = cashu.BlindedSignatures{{
			Amount: 4,
			Id:     k2,
			C_:     hex.EncodeToString(C_.SerializeCompressed()),
			DLEQ:   &cashu.DLEQProof{E: hex.EncodeToString(e.Serialize()), S: hex.EncodeToString(s.Serialize())},
		}}
		out, _ := json.Marshal(&res)
		return out
	}
	km.mu.Unlock()

	state, err := w.CheckMeltQuoteState(meltQuote.Quote)
	if err != nil {
		t.Fatalf("check melt quote state: %v", err)
	}
	if state.State != nut05.Paid || len(state.Change) != 1 {
		t.Fatalf("test setup: expected PAID with 1 change signature, got %v with %d", state.State, len(state.Change))
	}

	k1After, k2After := w.counterForKeyset(k1), w.counterForKeyset(k2)
	t.Logf("after CheckMeltQuoteState (PAID, 1 change signature on K2): counters K1=%d K2=%d", k1After, k2After)

	if k1After != k1Before+1 {
		t.Fatalf("expected the INPUT keyset's counter to be bumped by 1 (defect), got %d -> %d", k1Before, k1After)
	}
	if k2After != k2Before {
		t.Fatalf("expected the ACTIVE keyset's counter to be left behind (defect), got %d -> %d", k2Before, k2After)
	}

	// consequence: the next operation reuses (K2, counter 0)
	kfwFund(t, w, km.URL, 8)
	mintReqs := km.Requests("POST", "/v1/mint/bolt11")
	var lastMint nut04.PostMintBolt11Request
	if err := json.Unmarshal(mintReqs[len(mintReqs)-1].Body, &lastMint); err != nil {
		t.Fatal(err)
	}
	reused := false
	for _, out := range lastMint.Outputs {
		if out.Id == k2 && out.B_ == blank0.B_ {
			reused = true
		}
	}
	if !reused {
		t.Fatalf("expected the next mint request to reuse the blinded message of blank output (K2, 0)")
	}
	t.Logf("DEFECT DEMONSTRATED: change was signed on (K2=%s, counter 0) but the wallet bumped K1=%s (%d -> %d) and left K2 at %d; "+
		"the next mint request submitted B_=%s… again (same secret as the signed change output)",
		k2, k1, k1Before, k1After, k2After, blank0.B_[:16])
}
