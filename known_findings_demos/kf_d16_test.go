//go:build kfdemo

// D16 - swapToTrusted with P2PK + SIG_ALL locked proofs from an untrusted mint.
//
// When the wallet receives a token from a mint it does not trust and is told to
// swap it to its trusted (default) mint, proofs that are P2PK locked with
// SIG_ALL cannot be melted directly (the mint only accepts SIG_ALL in /swap), so
// swapToTrusted first does a plain swap AT THE UNTRUSTED MINT. The outputs of
// that swap come from createSwapRequest -> counterForKeyset(untrusted keyset).
// The untrusted mint's keyset is never stored in the wallet db, so
//   - GetKeysetCounter returns 0 ("keyset does not exist" is swallowed), and
//   - nothing increments a counter afterwards (swapToTrusted does not even try).
//
// Scenario: a receiver (trusted mint A) is sent two SIG_ALL locked 64 sat tokens
// issued by mint B and receives both with swap-to-trusted.
//
// Bad outcome asserted: both pre-swaps at mint B submit the SAME deterministic
// blinded messages (keyset B, counters 0,1,2,...). The first is signed; the
// second is rejected by mint B with "blinded message already signed", so the
// second token cannot be received this way at all (and had the mint not kept
// the signatures, secrets would have been reused).
//
//	go test -tags kfdemo -vet=off -count=1 -run TestKF_D16 ./wallet/
package wallet

import (
	"encoding/json"
	"strings"
	"testing"

	"github.com/elnosh/gonuts/cashu"
	"github.com/elnosh/gonuts/cashu/nuts/nut03"
	"github.com/elnosh/gonuts/cashu/nuts/nut11"
)

func TestKF_D16_SwapToTrustedSigAllReusesCounter(t *testing.T) {
	const amount = 64

	mintA := kfwStartMint(t, nil) // trusted by the receiver
	mintB := kfwStartMint(t, nil) // not trusted by the receiver

	sender := kfwNewWallet(t, mintB.URL)
	receiver := kfwNewWallet(t, mintA.URL)
	kfwFund(t, sender, mintB.URL, 4*amount)

	lockedToken := func() cashu.Token {
		tags := &nut11.P2PKTags{Sigflag: nut11.SIGALL}
		proofs, err := sender.SendToPubkey(amount, mintB.URL, receiver.GetReceivePubkey(), tags, false)
		if err != nil {
			t.Fatalf("send to pubkey: %v", err)
		}
		token, err := cashu.NewTokenV4(proofs, mintB.URL, cashu.Sat, false)
		if err != nil {
			t.Fatal(err)
		}
		return token
	}
	token1 := lockedToken()
	token2 := lockedToken()

	keysetB := mintB.M.GetActiveKeyset().Id
	if receiver.db.GetKeyset(keysetB) != nil {
		t.Fatal("test setup: receiver should not know mint B's keyset")
	}

	// swaps the RECEIVER makes at mint B (the sender's swaps come first)
	swapsBefore := len(mintB.Requests("POST", "/v1/swap"))

	// --- first token ---
	got1, err1 := receiver.Receive(token1, true)
	if err1 != nil {
		t.Fatalf("first receive failed: %v", err1)
	}
	t.Logf("first token: received %d sat at the trusted mint", got1)
	counterAfterFirst := receiver.counterForKeyset(keysetB)

	// --- second token ---
	got2, err2 := receiver.Receive(token2, true)
	t.Logf("second token: received %d sat, err=%v", got2, err2)

	swaps := mintB.Requests("POST", "/v1/swap")[swapsBefore:]
	if len(swaps) != 2 {
		t.Fatalf("expected 2 pre-swaps by the receiver at mint B, got %d", len(swaps))
	}
	outputsOf := func(r kfwReq) []string {
		var req nut03.PostSwapRequest
		if err := json.Unmarshal(r.Body, &req); err != nil {
			t.Fatal(err)
		}
		var bs []string
		for _, o := range req.Outputs {
			if o.Id != keysetB {
				t.Fatalf("pre-swap output not on mint B's keyset")
			}
			bs = append(bs, o.B_)
		}
		return bs
	}
	first, second := outputsOf(swaps[0]), outputsOf(swaps[1])
	t.Logf("pre-swap 1: %d outputs, first B_ %s…", len(first), first[0][:16])
	t.Logf("pre-swap 2: %d outputs, first B_ %s…", len(second), second[0][:16])

	// the counter of mint B's keyset never moved
	if counterAfterFirst != 0 || receiver.counterForKeyset(keysetB) != 0 {
		t.Fatalf("expected the wallet's counter for the untrusted keyset to read 0 throughout, got %d / %d",
			counterAfterFirst, receiver.counterForKeyset(keysetB))
	}
	// same (keyset, counter) blinded messages submitted twice
	reused := 0
	for _, b := range second {
		for _, a := range first {
			if a == b {
				reused++
			}
		}
	}
	if reused == 0 {
		t.Fatalf("expected the second pre-swap to reuse blinded messages of the first")
	}
	// and the mint refuses the second one
	if err2 == nil || !strings.Contains(err2.Error(), cashu.BlindedMessageAlreadySigned.Detail) {
		t.Fatalf("expected the second receive to fail with %q, got: %v", cashu.BlindedMessageAlreadySigned.Detail, err2)
	}

	t.Logf("DEFECT DEMONSTRATED: %d of %d blinded messages of the second pre-swap are identical to the first "+
		"(keyset %s, counter always 0); second receive fails: %v", reused, len(second), keysetB, err2)
}
